"""Native side of every check (runs under /venv/bin/python, imports the REAL kafe2 from --root).

Each oracle is the executable form of a contract clause: `run(input) -> None | dict(got=..., expected=..., witness_class=...)`
evaluated on every input produced by its generator (exhaustive small scope, history search, or a seeded sample).
Purposes: replay of counterexamples, covers (reachability of verified exit paths), refutation mode for unproved obligations.
Nothing here is ever counted as `discharged`."""
import argparse, json, sys, os, warnings, time, traceback, importlib, random, multiprocessing


def parse():
    ap = argparse.ArgumentParser()
    ap.add_argument("--root", default="/repo")
    ap.add_argument("--tier", default="quick")
    ap.add_argument("--seed", type=int, default=0)
    ap.add_argument("--replay", default=None)
    a = ap.parse_args()
    warnings.simplefilter("ignore")
    sys.path.insert(0, a.root)
    os.environ.setdefault("MPLBACKEND", "Agg")
    return a


def imp(name):
    return importlib.import_module(name)


def jsonable(x):
    try:
        import numpy as np
        if isinstance(x, np.ndarray):
            return x.tolist()
        if isinstance(x, (np.integer,)):
            return int(x)
        if isinstance(x, (np.floating,)):
            return float(x)
        if isinstance(x, np.bool_):
            return bool(x)
    except Exception:
        pass
    if isinstance(x, dict):
        return {str(k): jsonable(v) for k, v in x.items()}
    if isinstance(x, (list, tuple)):
        return [jsonable(v) for v in x]
    if isinstance(x, (int, float, str, bool)) or x is None:
        return x
    return repr(x)


COVERS = {}


class Runner:
    def __init__(self, prop, args, scope="", rule=""):
        self.prop, self.args, self.scope, self.rule = prop, args, scope, rule
        self.oracles = []
        self.covers = {}

    def oracle(self, name, gen, obligation=""):
        def deco(fn):
            self.oracles.append((name, gen, fn, obligation))
            return fn
        return deco

    def cover(self, label):
        COVERS[label] = COVERS.get(label, 0) + 1

    def _run_oracle(self, idx):
        shard, nshards = 0, 1
        if isinstance(idx, tuple):
            idx, shard, nshards = idx
        name, gen, fn, obligation = self.oracles[idx]
        fails, n, samples, classes = [], 0, [], {}
        COVERS.clear()
        t0 = time.time()
        try:
            for pos, inp in enumerate(gen(self.args.tier, self.args.seed)):
                if pos % nshards != shard:
                    continue
                n += 1
                try:
                    r = fn(inp)
                except Exception as e:
                    r = {"got": "exception " + repr(e)[:300], "expected": "no exception", "witness_class": "exception:" + type(e).__name__, "trace": traceback.format_exc()[-800:]}
                if n <= 2:
                    samples.append({"oracle": name, "input": jsonable(inp)})
                if r:
                    wc = str(r.get("witness_class", ""))
                    classes[wc] = classes.get(wc, 0) + 1
                    if classes[wc] <= 2:
                        fails.append(dict(jsonable(r), oracle=name, obligation=obligation, input=jsonable(inp), witness_class=wc))
        except Exception as e:
            fails.append({"oracle": name, "obligation": obligation, "input": None, "got": "generator/oracle crashed: " + repr(e)[:300], "expected": "", "witness_class": "crash", "trace": traceback.format_exc()[-800:]})
        return {"name": name, "n": n, "fails": fails, "samples": samples, "covers": dict(COVERS), "s": round(time.time() - t0, 2), "fail_classes": classes}

    def main(self):
        a = self.args
        if a.replay:
            doc = json.load(open(a.replay))
            by = {o[0]: o for o in self.oracles}
            if doc.get("oracle") not in by:
                print(json.dumps({"evaluations": 0, "failures": [], "note": "replay file names no native oracle (solver counter-model only): " + str(doc.get("obligation"))}))
                return 0
            name, gen, fn, obligation = by[doc["oracle"]]
            try:
                r = fn(doc["input"])
            except Exception as e:
                r = {"got": "exception " + repr(e)[:300], "expected": "no exception", "witness_class": "exception:" + type(e).__name__}
            print(json.dumps({"evaluations": 1, "failures": [dict(jsonable(r), oracle=name, input=doc["input"])] if r else []}))
            return 0
        jobs = int(os.environ.get("VERIF_NATIVE_JOBS", "8"))
        nshards = getattr(self, "shards", 1)
        if nshards > 1 and jobs > 1:        # slow oracles: the inputs of each oracle are dealt round-robin to `shards` workers
            tasks = [(i, sh, nshards) for i in range(len(self.oracles)) for sh in range(nshards)]
            with multiprocessing.get_context("fork").Pool(min(max(jobs, 14), len(tasks))) as pool:
                parts = pool.map(self._run_oracle, tasks, chunksize=1)
            res = []
            for i in range(len(self.oracles)):
                mine = [p_ for p_, t_ in zip(parts, tasks) if t_[0] == i]
                cls = {}
                for p_ in mine:
                    for k_, v_ in p_["fail_classes"].items():
                        cls[k_] = cls.get(k_, 0) + v_
                cov = {}
                for p_ in mine:
                    for k_, v_ in p_["covers"].items():
                        cov[k_] = cov.get(k_, 0) + v_
                res.append({"name": mine[0]["name"], "n": sum(p_["n"] for p_ in mine), "fails": [f for p_ in mine for f in p_["fails"]][:6],
                            "samples": mine[0]["samples"], "covers": cov, "s": max(p_["s"] for p_ in mine), "fail_classes": cls})
        elif len(self.oracles) > 1 and jobs > 1:
            with multiprocessing.get_context("fork").Pool(min(jobs, len(self.oracles))) as pool:
                res = pool.map(self._run_oracle, range(len(self.oracles)), chunksize=1)
        else:
            res = [self._run_oracle(i) for i in range(len(self.oracles))]
        covers = {}
        for r in res:
            for k, v in r["covers"].items():
                covers[k] = covers.get(k, 0) + v
        out = {
            "evaluations": sum(r["n"] for r in res), "distinct_nontrivial": sum(r["n"] for r in res),
            "failures": [f for r in res for f in r["fails"]],
            "covers": covers, "scope": self.scope, "rule": self.rule,
            "oracles": {r["name"]: {"inputs": r["n"], "seconds": r["s"], "failures_by_class": r["fail_classes"]} for r in res},
            "samples": [s for r in res for s in r["samples"]][:8],
        }
        print(json.dumps(out, default=str))
        return 0
