"""Native side of C16: executable contracts of ConfidenceLevel on the real class (operation histories against a fresh object),
bounded numerical regression of the table values, and the arrow specifications of profile() with a quadratic cost."""
import itertools, sys, math
from common import parse, Runner, imp

args = parse()
import numpy as np
from scipy.stats import chi2 as chi2dist
CL = imp("kafe2.core.confidence").ConfidenceLevel
R = Runner("C16", args, scope="n in 1..6; sigma grid 0.1..7.5; histories of <=3 setter/read operations; arrows: cl in {.6827,.9,.95}, one- and two-sided, subtract_min both",
           rule="grid enumeration; histories over {cl=,sigma=,delta_nll=,ndim=,read cl,read sigma,read delta_nll}")
TOL = 1e-9


def gen_grid(tier, seed):
    for n in range(1, 7):
        for s in [0.1, 0.5, 1.0, 1.5, 2.0, 3.0, 4.0, 5.0, 6.0, 7.5]:
            yield {"n": n, "sigma": s}


@R.oracle("sigma_to_cl_is_chi2_cdf_and_inverse", gen_grid, obligation="ConfidenceLevel")
def grid(inp):
    n, s = inp["n"], inp["sigma"]
    c = CL(n, sigma=s)
    exp = chi2dist.cdf(s * s, n)
    if abs(c.cl - exp) > 1e-12 * max(1, exp):
        return {"got": c.cl, "expected": exp, "witness_class": "cl!=chi2cdf"}
    if abs(c.delta_nll - s * s) > 1e-12 * s * s:
        return {"got": c.delta_nll, "expected": s * s, "witness_class": "delta_nll"}
    back = CL(n, cl=c.cl).sigma
    if s <= 6.0 and abs(back - s) > 1e-6 * s:     # float cancellation 1-(1-q) grows towards 8 sigma (assumption stated in evidence)
        return {"got": back, "expected": s, "witness_class": "roundtrip"}
    s2 = s * 1.01
    if not CL(n, sigma=s2).cl > c.cl and s < 6:
        return {"got": "not increasing", "expected": "strictly increasing", "witness_class": "monotone"}
    if n == 1 and s in (1.0, 2.0, 3.0):
        tab = {1.0: 0.6827, 2.0: 0.9545, 3.0: 0.9973}[s]
        if abs(c.cl - tab) > 5e-5:
            return {"got": c.cl, "expected": tab, "witness_class": "table"}
    if n == 2 and abs(c.cl - (1 - math.exp(-s * s / 2))) > 1e-12:
        return {"got": c.cl, "expected": 1 - math.exp(-s * s / 2), "witness_class": "2d"}


OPS = [("cl", 0.9), ("cl", 0.5), ("sigma", 2.0), ("sigma", 0.7), ("delta_nll", 4.0), ("delta_nll", 2.25), ("ndim", 2), ("ndim", 3), ("read", "cl"), ("read", "sigma"), ("read", "delta_nll"),
       ("cl", 1.5), ("sigma", -1.0), ("delta_nll", 0.0), ("ndim", 0)]


def gen_hist(tier, seed):
    L = 4 if tier == "thorough" else 3
    for n0 in (1, 2):
        for first in (("cl", 0.6), ("sigma", 1.5), ("delta_nll", 1.0)):
            for ln in range(1, L + 1):
                for seq in itertools.product(range(len(OPS)), repeat=ln):
                    yield {"n0": n0, "first": list(first), "history": [list(OPS[q]) for q in seq]}


@R.oracle("history_vs_fresh_object", gen_hist, obligation="ConfidenceLevel")
def hist(inp):
    n = inp["n0"]
    spec = tuple(inp["first"])
    obj = CL(n, **{spec[0]: spec[1]})
    accepted = []
    for kind, val in inp["history"]:
        if kind == "read":
            getattr(obj, val)
            continue
        bad = (kind == "cl" and not 0 < val < 1) or (kind in ("sigma", "delta_nll") and val <= 0) or (kind == "ndim" and val <= 0)
        try:
            setattr(obj, kind, val)
            if bad:
                return {"got": f"{kind}={val} accepted", "expected": "ValueError", "witness_class": "guard:" + kind}
        except ValueError:
            if not bad:
                return {"got": f"{kind}={val} rejected", "expected": "accepted", "witness_class": "guard:" + kind}
            continue
        accepted.append(kind)
        if kind == "ndim":
            n = val
        else:
            spec = (kind, val)
    ref = CL(n, **{spec[0]: spec[1]})     # a fresh object brought directly to the same configuration
    for q in ("sigma", "cl", "delta_nll"):
        g, e = getattr(obj, q), getattr(ref, q)
        if abs(g - e) > TOL * max(1, abs(e)):
            last = "ndim" if "ndim" in accepted and accepted[-1] != "ndim" and abs(getattr(CL(inp["n0"], **{spec[0]: spec[1]}), q) - g) <= TOL else (accepted[-1] if accepted else "ctor")
            return {"got": {q: g}, "expected": {q: e}, "witness_class": f"after:{accepted[-1] if accepted else 'ctor'}:{q}"}


def gen_arrows(tier, seed):
    for backend in ("iminuit", "scipy"):
        for cl in (0.6827, 0.90, 0.95):
            for mode in ("central", "left_given", "right_given"):
                for sub in (True, False):
                    yield {"backend": backend, "cl": cl, "mode": mode, "subtract_min": sub}


_minimizers = {}


def get_min(backend):
    if backend not in _minimizers:
        mod = imp("kafe2.core.minimizers.iminuit_minimizer" if backend == "iminuit" else "kafe2.core.minimizers.scipy_optimize_minimizer")
        cls = mod.MinimizerIMinuit if backend == "iminuit" else mod.MinimizerScipyOptimize
        f = lambda a, b: ((a - 1.0) / 0.5) ** 2 + ((b - 2.0) / 1.0) ** 2 + 7.5
        m = cls(["a", "b"], [0.3, 0.3], [0.1, 0.1], f)
        m.minimize()
        _minimizers[backend] = m
    return _minimizers[backend]


@R.oracle("profile_arrow_specs", gen_arrows, obligation="MinimizerBase._get_arrow_specs")
def arrows(inp):
    m = get_min(inp["backend"])
    cl, mode, sub = inp["cl"], inp["mode"], inp["subtract_min"]
    kw = dict(cl=cl, arrows=True, subtract_min=sub)
    if mode == "left_given":
        kw["low"] = 0.2
    if mode == "right_given":
        kw["high"] = 1.9
    _, specs = m.profile("a", **kw)
    fmin, amin, aerr = 7.5, 1.0, 0.5
    yoff = fmin if sub else 0.0
    for sp in specs:
        x, y, c = sp["x"], sp["y"], sp["cl"]
        rise = ((x - amin) / aerr) ** 2       # profile of this separable quadratic: other parameter stays at its minimum
        given = (mode == "left_given" and sp["side"] == "left") or (mode == "right_given" and sp["side"] == "right")
        if given:
            exp_cl = (1 - chi2dist.cdf(rise, 1)) / 2
        elif mode == "central":
            exp_cl = (1 - cl) / 2
            exp_rise = chi2dist.ppf(cl, 1)
        else:
            exp_cl = 1 - cl
            exp_rise = chi2dist.ppf(2 * cl - 1, 1)
        if abs(c - exp_cl) > 1e-6:
            return {"got": {"cl": c, "side": sp["side"]}, "expected": {"cl": exp_cl}, "witness_class": f"{mode}:cl"}
        if not given and abs(rise - exp_rise) > 2e-3 * max(1, exp_rise):
            return {"got": {"rise": rise, "side": sp["side"]}, "expected": {"rise": exp_rise}, "witness_class": f"{mode}:x"}
        if yoff is not None and abs(y - (fmin + rise - yoff)) > 5e-3 * max(1, rise):
            return {"got": {"y": y, "side": sp["side"]}, "expected": {"y": fmin + rise - yoff}, "witness_class": f"{mode}:y"}


def gen_contour_levels(tier, seed):
    yield {"sigmas": [1.0, 2.0]}


@R.oracle("contour_levels_are_two_dimensional", gen_contour_levels, obligation="ContoursProfiler")
def contour_levels(inp):
    import inspect
    src = inspect.getsource(imp("kafe2.fit.tools.contours_profiler").ContoursProfiler.__init__)
    if "ConfidenceLevel(n_dimensions=2, sigma=_sigma)" not in src.replace("\n", " "):
        return {"got": "contour confidence levels not built with n_dimensions=2", "expected": "ConfidenceLevel(n_dimensions=2, sigma=...)", "witness_class": "ndim"}


def gen_contour_geometry(tier, seed):
    for backend in ("scipy", "iminuit"):
        for sigma in (1.0, 2.0, 3.0) if tier == "thorough" else (1.0, 2.0):
            yield {"backend": backend, "sigma": sigma}


@R.oracle("s_sigma_contour_is_the_level_s_squared", gen_contour_geometry, obligation="contour")
def contour_geometry(inp):
    """the curve delivered for an s-sigma contour of a straight-line fit (exactly quadratic cost) is the level 'cost rise = s^2' - the two-dimensional region of
    probability 1 - exp(-s^2/2) - and it is delivered completely: it extends to +- s standard deviations along each parameter"""
    XYFit = imp("kafe2").XYFit
    x = np.array([0.0, 1.0, 2.0, 3.0, 4.0, 5.0]); y = np.array([0.9, 3.2, 4.8, 7.1, 9.2, 10.8])
    fit = XYFit([x, y], minimizer=inp["backend"]); fit.add_error("y", 0.4)
    fit.do_fit()
    pv, C, s_ = np.asarray(fit.parameter_values, float), np.asarray(fit.parameter_cov_mat, float), inp["sigma"]
    names = list(fit.parameter_names)
    c = fit._fitter.contour(names[0], names[1], sigma=s_)
    Ci = np.linalg.inv(C)
    half = s_ * np.sqrt(np.diag(C))
    tag = f"{inp['backend']}:sigma-{s_:g}"
    if c is None:
        return {"got": None, "expected": "a contour", "witness_class": tag + ":missing"}
    if c.xy_points is not None:
        pts = np.asarray(c.xy_points, float)
        pts = pts.T if pts.shape[0] == 2 and pts.shape[1] != 2 else pts
        d = pts - pv
        rise = np.einsum("ki,ij,kj->k", d, Ci, d)
        if not np.allclose(rise, s_ ** 2, rtol=8e-2):
            return {"got": [float(rise.min()), float(rise.max())], "expected": s_ ** 2, "witness_class": tag + ":level"}
        ext = np.max(np.abs(d), axis=0)
        if np.any(ext < 0.9 * half):
            return {"got": ext.tolist(), "expected": half.tolist(), "witness_class": tag + ":truncated"}
        return None
    gx, gy, gz = np.asarray(c.grid_x, float), np.asarray(c.grid_y, float), np.asarray(c.grid_z, float)
    for ax_, g_ in ((0, gx), (1, gy)):
        if g_.min() > pv[ax_] - half[ax_] or g_.max() < pv[ax_] + half[ax_]:
            return {"got": [float(g_.min()), float(g_.max())], "expected": [float(pv[ax_] - half[ax_]), float(pv[ax_] + half[ax_])], "witness_class": tag + ":truncated"}
    Xg, Yg = np.meshgrid(gx, gy)
    d_ = np.stack([Xg - pv[0], Yg - pv[1]], axis=-1)
    z_exact = np.sqrt(np.einsum("...i,ij,...j->...", d_, Ci, d_))
    best = None
    for Zx in (gz, gz.T):
        if Zx.shape != z_exact.shape:
            continue
        near_ = np.abs(z_exact - s_) < 0.12
        err_ = 9.0 if np.sum(near_) < 8 else float(np.max(np.abs(Zx[near_] - z_exact[near_])))
        best = err_ if best is None else min(best, err_)
    if best is None or best > 0.1:
        return {"got": best, "expected": "grid cells on the drawn level hold sqrt(cost rise) = s", "witness_class": tag + ":level"}


def gen_profiler_contours(tier, seed):
    for backend in ("iminuit", "scipy"):
        yield {"backend": backend, "sigmas": [1.0, 2.0]}


@R.oracle("contours_profiler_delivers_the_requested_levels", gen_profiler_contours, obligation="ContoursProfiler.get_contours")
def profiler_contours(inp):
    """ContoursProfiler(fit, contour_sigma_values=(n, ...)).get_contours: the n-sigma contour is the curve on which the cost has risen by n^2 (profiled over the other
    parameters), and it is labelled n sigma / the two-dimensional confidence level 1 - exp(-n^2/2); straight-line fit, so the rise is the exact quadratic form"""
    k2 = imp("kafe2")
    x = np.array([0.0, 1.0, 2.0, 3.0, 4.0, 5.0]); y = np.array([0.9, 3.2, 4.8, 7.1, 9.2, 10.8])
    fit = k2.XYFit([x, y], minimizer=inp["backend"]); fit.add_error("y", 0.4)
    fit.do_fit()
    pv, Ci = np.asarray(fit.parameter_values, float), np.linalg.inv(np.asarray(fit.parameter_cov_mat, float))
    names = list(fit.parameter_names)
    contours = k2.ContoursProfiler(fit, contour_sigma_values=tuple(inp["sigmas"])).get_contours(names[0], names[1])
    if len(contours) != len(inp["sigmas"]):
        return {"got": len(contours), "expected": len(inp["sigmas"]), "witness_class": "profiler:number-of-contours"}
    for n_, (cl_obj, c) in zip(inp["sigmas"], contours):
        tag = f"profiler:{inp['backend']}:sigma-{n_:g}"
        if not np.isclose(c.sigma, n_) or not np.isclose(cl_obj.sigma, n_) or not np.isclose(cl_obj.cl, 1 - np.exp(-0.5 * n_ * n_), rtol=1e-9):
            return {"got": {"contour.sigma": float(c.sigma), "cl": float(cl_obj.cl)}, "expected": {"sigma": n_, "cl": float(1 - np.exp(-0.5 * n_ * n_))}, "witness_class": tag + ":label"}
        if c.xy_points is not None:
            pts = np.asarray(c.xy_points, float)
            pts = pts.T if pts.shape[0] == 2 and pts.shape[1] != 2 else pts
            d = pts - pv
            rise = np.einsum("ki,ij,kj->k", d, Ci, d)
            if not np.allclose(rise, n_ ** 2, rtol=8e-2):
                return {"got": [float(rise.min()), float(rise.max())], "expected": n_ ** 2, "witness_class": tag + ":level"}
        else:
            gx, gy, gz = np.asarray(c.grid_x, float), np.asarray(c.grid_y, float), np.asarray(c.grid_z, float)
            Xg, Yg = np.meshgrid(gx, gy)
            d_ = np.stack([Xg - pv[0], Yg - pv[1]], axis=-1)
            z_exact = np.sqrt(np.einsum("...i,ij,...j->...", d_, Ci, d_))
            ok = False
            for Zx in (gz, gz.T):
                if Zx.shape == z_exact.shape:
                    near_ = np.abs(z_exact - n_) < 0.12
                    ok = ok or (np.sum(near_) >= 8 and float(np.max(np.abs(Zx[near_] - z_exact[near_]))) <= 0.1)
            if not ok:
                return {"got": "grid does not hold sqrt(rise) = n on the requested level", "expected": n_, "witness_class": tag + ":level"}


sys.exit(R.main())
