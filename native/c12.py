"""Native side of C12: executable contract of HistContainer (half-open bin spec from the property text) evaluated on the real
class for exhaustive small scopes (order types with ties) and operation histories. Replay + covers + refutation mode."""
import itertools, sys
from common import parse, Runner, imp

args = parse()
import numpy as np
HistContainer = imp("kafe2.fit.histogram.container").HistContainer
R = Runner("C12", args, scope="<=2 bins over the ordered set {0,1,2,3} with ties (+ -1, 4 as far-out entries), <=3 entries in <=2 batches, all observer orders; histories of <=4 operations",
           rule="exhaustive enumeration of order types; an input is one (edges, batches, entries, read order) tuple or one operation history")


def bin_of(e, edges):
    n = len(edges) - 1
    if e < edges[0]:
        return 0
    if e >= edges[n]:
        return n + 1
    for k in range(1, n + 1):
        if edges[k - 1] <= e < edges[k]:
            return k


def spec_counts(entries, edges):
    c = [0.0] * (len(edges) + 1)
    for e in entries:
        c[bin_of(e, edges)] += 1
    return c


OBS = {"data": lambda h: [float(x) for x in h.data], "underflow": lambda h: float(h.underflow), "overflow": lambda h: float(h.overflow),
       "n_entries": lambda h: float(h.n_entries), "raw": lambda h: sorted(float(x) for x in h.raw_data)}


def expected(entries, edges):
    c = spec_counts(entries, edges)
    return {"data": c[1:-1], "underflow": c[0], "overflow": c[-1], "n_entries": float(len(entries)), "raw": sorted(float(x) for x in entries)}


vals = [0.0, 1.0, 2.0, 3.0]
ORDERS = [("data", "underflow", "overflow", "n_entries", "raw"), ("underflow", "overflow", "data", "n_entries", "raw"), ("n_entries", "overflow", "underflow", "raw", "data"), ("overflow", "n_entries", "data", "underflow", "raw")]


def gen_fills(tier, seed):
    ext = vals + [-1.0, 4.0]
    for n in (1, 2):
        for edges in itertools.combinations_with_replacement(vals, n + 1):
            for batches in ([1], [2], [1, 1], [0, 1], [1, 2] if tier == "thorough" else [3]):
                for entries in itertools.product(ext, repeat=sum(batches)):
                    if sum(batches) == 3 and tier != "thorough" and len(set(entries)) == 3 and entries != tuple(sorted(entries)):
                        continue
                    for oi, order in enumerate(ORDERS):
                        if sum(batches) == 3 and oi > 1:
                            continue
                        yield {"edges": list(edges), "batches": batches, "entries": list(entries), "order": list(order), "read_between": bool(oi % 2)}


def gen_scales(tier, seed):
    for edges in ([0.0, 1e-9, 2e-9, 3e-9, 4e-9], [0.0, 50000.0, 99999.5, 100000.0], [0.0, 1.0, 1.0 + 1e-9, 1.0 + 2e-9], [-4e-10, -1e-10, 0.0, 5e-10], [1e12, 1e12 + 1.0, 1e12 + 2.0]):
        lo, hi = edges[0], edges[-1]
        w = hi - lo
        entries = [lo - 0.3 * w] + [0.5 * (a_ + b_) for a_, b_ in zip(edges[:-1], edges[1:])] + [edges[1], edges[-2], hi, hi + 0.2 * w, lo]
        for batches in ([len(entries)], [3, len(entries) - 3]):
            yield {"edges": edges, "entries": entries, "batches": batches}


@R.oracle("bins_are_exact_at_every_scale", gen_scales, obligation="HistContainer._fill_unprocessed")
def scales(inp):
    """the half-open bins are decided by exact comparisons: edges that are tiny, huge or close together are edges like any other"""
    edges, entries = inp["edges"], inp["entries"]
    h = HistContainer(n_bins=len(edges) - 1, bin_range=(edges[0], edges[-1]), bin_edges=list(edges))
    pos = 0
    for b in inp["batches"]:
        h.fill(list(entries[pos:pos + b])); pos += b
        _ = h.data
    got = {o: OBS[o](h) for o in ("data", "underflow", "overflow")}
    exp = expected(entries, edges)
    bad = [o for o in got if got[o] != exp[o]]
    if bad:
        return {"got": {o: got[o] for o in bad}, "expected": {o: exp[o] for o in bad}, "witness_class": "scale:" + bad[0]}


@R.oracle("observers_after_fills", gen_fills, obligation="HistContainer.")
def observers_after_fills(inp):
    edges, entries = inp["edges"], inp["entries"]
    h = HistContainer(n_bins=len(edges) - 1, bin_range=(edges[0], edges[-1]), bin_edges=list(edges))
    pos = 0
    for bi, b in enumerate(inp["batches"]):
        h.fill(list(entries[pos:pos + b]))
        pos += b
        if inp["read_between"] and bi + 1 < len(inp["batches"]):
            OBS[inp["order"][0]](h)       # a read between the batches must not matter
    got = {o: OBS[o](h) for o in inp["order"]}
    exp = expected(entries, edges)
    bad = [o for o in inp["order"] if got[o] != exp[o]]
    R.cover("overflow-tail" if exp["overflow"] else "no-overflow")
    R.cover("underflow" if exp["underflow"] else "no-underflow")
    if bad:
        return {"got": {o: got[o] for o in bad}, "expected": {o: exp[o] for o in bad}, "witness_class": "observer:" + bad[0]}


def gen_hist(tier, seed):
    edge_sets = [[0.0, 1.0, 2.0], [0.0, 2.0], [1.0, 1.0, 3.0], [0.0, 1.0, 3.0]]
    ops = [("fill", [0.5]), ("fill", [-1.0, 2.0]), ("fill", [3.0, 1.0]), ("read", "data"), ("read", "overflow"), ("read", "n_entries")] + [("rebin", e) for e in edge_sets[:3]] + [("rebin_bad", [2.0, 1.0, 0.0]), ("fill_bad", [[1.0], [2.0]])]
    L = 4 if tier == "thorough" else 3
    for e0 in edge_sets[:2]:
        for ln in range(1, L + 1):
            for seq in itertools.product(range(len(ops)), repeat=ln):
                kinds = [ops[q][0] for q in seq]
                if not any(k_.startswith("fill") for k_ in kinds) or (ln > 1 and not any(k_ in ("read", "rebin", "rebin_bad", "fill_bad") for k_ in kinds)):
                    continue
                yield {"edges0": e0, "history": [list(ops[q]) for q in seq]}


@R.oracle("history_independence", gen_hist, obligation="HistContainer.")
def history_independence(inp):
    edges = list(inp["edges0"])
    h = HistContainer(n_bins=len(edges) - 1, bin_range=(edges[0], edges[-1]), bin_edges=list(edges))
    entries = []
    for kind, arg in inp["history"]:
        if kind == "fill":
            h.fill(list(arg)); entries += list(arg)
        elif kind == "read":
            OBS[arg](h)
        elif kind == "rebin":
            h.rebin(list(arg)); edges = list(arg)
        elif kind == "rebin_bad":
            try:
                h.rebin(list(arg))
                return {"got": "unsorted edges accepted", "expected": "ValueError", "witness_class": "rebin_bad:accepted"}
            except ValueError:
                pass
        elif kind == "fill_bad":
            try:
                h.fill(arg)
                return {"got": "2-d fill accepted", "expected": "ValueError", "witness_class": "fill_bad:accepted"}
            except ValueError:
                pass
    # reference: a fresh container brought directly to the same configuration, no intermediate reads
    exp = expected(entries, edges)
    got = {o: OBS[o](h) for o in ("underflow", "data", "overflow", "n_entries", "raw")}
    bad = [o for o in got if got[o] != exp[o]]
    if bad:
        last_mut = [k_ for k_, _ in inp["history"] if k_ != "read"][-1]
        return {"got": {o: got[o] for o in bad}, "expected": {o: exp[o] for o in bad}, "witness_class": f"after:{last_mut}:observer:{bad[0]}"}


def gen_setbins(tier, seed):
    for n in (1, 2):
        for heights in ([1.0] * n, [1.0] * (n + 1), [[1.0, 2.0]] * n, []):
            for pre in ([], [0.5, 5.0]):
                yield {"n": n, "heights": heights, "pre": pre}


@R.oracle("set_bins_guard_and_frame", gen_setbins, obligation="HistContainer.set_bins")
def set_bins_guard_and_frame(inp):
    n = inp["n"]
    h = HistContainer(n_bins=n, bin_range=(0.0, float(n)))
    if inp["pre"]:
        h.fill(list(inp["pre"]))
    arr = np.array(inp["heights"])
    malformed = arr.ndim != 1 or len(arr) != n
    try:
        h.set_bins(inp["heights"], underflow=3, overflow=4)
        raised = False
    except ValueError:
        raised = True
    if raised != malformed:
        return {"got": f"raised={raised}", "expected": f"raised={malformed}", "witness_class": "guard"}
    if raised:
        # exceptional frame: a rejected call leaves all later results as if it had not been made
        try:
            h.fill([0.5])
            got = {o: OBS[o](h) for o in ("underflow", "data", "overflow", "n_entries")}
        except Exception as e:
            return {"got": "after rejected set_bins: " + repr(e), "expected": "container still usable", "witness_class": "frame"}
        exp = expected(list(inp["pre"]) + [0.5], list(np.linspace(0.0, float(n), n + 1)))
        bad = [o for o in got if got[o] != exp[o]]
        if bad:
            return {"got": got, "expected": {o: exp[o] for o in got}, "witness_class": "frame"}
    else:
        if [float(x) for x in h.data] != [float(x) for x in inp["heights"]] or float(h.underflow) != 3 or float(h.overflow) != 4:
            return {"got": [list(h.data), float(h.underflow), float(h.overflow)], "expected": [inp["heights"], 3, 4], "witness_class": "placed"}


def gen_ctor(tier, seed):
    for edges in ([0.0, 1.0, 2.0], [0.0, 0.0, 1.0], [0.0, 1.0]):
        for mode in ("edges", "inner", "range"):
            for fill in ([], [0.0, 1.0, 2.0, -5.0, 0.5]):
                yield {"edges": edges, "mode": mode, "fill": fill}


@R.oracle("constructor_forms", gen_ctor, obligation="HistContainer.__init__")
def constructor_forms(inp):
    edges, fill = inp["edges"], inp["fill"]
    if inp["mode"] == "edges":
        h = HistContainer(bin_edges=list(edges), fill_data=list(fill) or None)
        full = edges
    elif inp["mode"] == "inner":
        if len(edges) < 3:
            return None
        h = HistContainer(n_bins=len(edges) - 1, bin_range=(edges[0], edges[-1]), bin_edges=list(edges[1:-1]), fill_data=list(fill) or None)
        full = edges
    else:
        h = HistContainer(n_bins=len(edges) - 1, bin_range=(edges[0], edges[-1]), fill_data=list(fill) or None)
        full = list(np.linspace(edges[0], edges[-1], len(edges)))
    exp = expected(fill, full)
    got = {o: OBS[o](h) for o in ("overflow", "underflow", "data", "n_entries")}
    bad = [o for o in got if got[o] != exp[o]]
    if [float(x) for x in h.bin_edges] != [float(x) for x in full]:
        return {"got": list(h.bin_edges), "expected": full, "witness_class": "edges"}
    if bad:
        return {"got": got, "expected": {o: exp[o] for o in got}, "witness_class": "ctor:" + bad[0]}


sys.exit(R.main())
