"""Native side of C14 (bounded): pairs of equivalent specifications built on the real code; compared on covariance matrices and on the cost at common
parameter points (no optimiser involved unless the wrapper itself runs one)."""
import io, itertools, os, sys, tempfile, warnings
from common import parse, Runner, imp

args = parse()
import numpy as np
warnings.simplefilter("ignore")
kafe2 = imp("kafe2")
err = imp("kafe2.core.error")
con = imp("kafe2.core.constraint")
wrapper = imp("kafe2.fit.util.wrapper")
XYFit, IndexedFit, HistFit, UnbinnedFit, MultiFit, XYContainer, IndexedContainer, HistContainer = kafe2.XYFit, kafe2.IndexedFit, kafe2.HistFit, kafe2.UnbinnedFit, kafe2.MultiFit, kafe2.XYContainer, kafe2.IndexedContainer, kafe2.HistContainer
R = Runner("C14", args, scope="source forms (rel/abs, cor+err/cov, simple rho/matrix, scalar/vector) on source objects, containers and 3 fit types with references of either sign; constraint forms; "
                              "5 wrapper functions x keyword combinations vs explicit fits; model as library name / SymPy string / source text / callable; YAML shorthand vs explicit",
           rule="enumeration of form pairs x data sets x parameter points; exact comparison up to rounding (1e-10 relative)")

X = np.array([0.5, 1.5, 2.5, 3.5, 4.5])
YS = {"pos": np.array([1.2, 2.9, 5.1, 7.2, 8.8]), "neg": np.array([-1.2, -2.9, -5.1, -7.2, -8.8]), "mixed": np.array([-1.2, 2.9, -5.1, 7.2, 8.8])}
XS = {"pos": X, "neg": -X, "mixed": np.array([-2.0, -1.0, 0.5, 1.5, 2.5])}
REL = np.array([0.05, 0.1, 0.02, 0.08, 0.04])
POINTS = [(1.0, 0.5), (2.3, -1.0), (-0.7, 4.0)]


def line(x, a=1.0, b=0.5):
    return a * x + b


def iline(a=1.0, b=0.5):
    return a * np.arange(5) + b


def same(a, b, what, tol=1e-10):
    a, b = np.asarray(a, float), np.asarray(b, float)
    if a.shape != b.shape or not np.allclose(a, b, rtol=tol, atol=tol * max(1.0, float(np.max(np.abs(b))) if b.size else 1.0)):
        return {"got": a, "expected": b, "witness_class": what}


def costs_equal(f, g, what):
    r = same(f.total_cov_mat, g.total_cov_mat, what + ":total_cov_mat")
    if r:
        return r
    for p in POINTS:
        f.set_all_parameter_values(p); g.set_all_parameter_values(p)
        r = same(f.cost_function_value, g.cost_function_value, what + ":cost") or same(f.total_cov_mat, g.total_cov_mat, what + ":total_cov_mat-at-point")
        if r:
            return r


# ------------------------------------------------------------------ 1. forms of an uncertainty source
BASE = {}


def setvariant(k):
    """variant 0: the data above; variant k > 0 (thorough tier): seeded other magnitudes of values, relative sizes, absolute sizes and correlations"""
    global REL, ABS, CORM, YS, XS
    if not BASE:
        BASE.update(REL=REL.copy(), ABS=ABS.copy(), CORM=CORM.copy(), YS={k_: v_.copy() for k_, v_ in YS.items()}, XS={k_: v_.copy() for k_, v_ in XS.items()})
    REL, ABS, CORM = BASE["REL"].copy(), BASE["ABS"].copy(), BASE["CORM"].copy()
    YS, XS = {k_: v_.copy() for k_, v_ in BASE["YS"].items()}, {k_: v_.copy() for k_, v_ in BASE["XS"].items()}
    if k:
        rng = np.random.RandomState(140 + k)
        REL = REL * rng.uniform(0.3, 3.0, 5)
        ABS = ABS * rng.uniform(0.2, 5.0, 5)
        YS = {k_: v_ * rng.uniform(0.5, 20.0) for k_, v_ in YS.items()}
        M = rng.uniform(-1, 1, (5, 5))
        C = M @ M.T + 2.5 * np.eye(5)
        d = np.sqrt(np.diag(C))
        CORM = C / np.outer(d, d)


def gen_source(tier, seed):
    for variant in (range(5) if tier == "thorough" else (0,)):
        for inp in gen_source_one(tier, seed):
            yield dict(inp, variant=variant)


def gen_source_one(tier, seed):
    for level in ("object", "indexed-container", "xy-container-x", "xy-container-y", "indexed-fit", "xy-fit-x", "xy-fit-y", "hist-fit"):
        for sign in ("pos", "neg", "mixed"):
            for pair in ("rel-vs-abs", "rel-vs-abs-correlated", "cor+err-vs-cov", "rel-cor+err-vs-rel-cov", "rho-vs-matrix", "scalar-vs-vector", "rel-scalar-vs-vector", "rel-cov-vs-abs-cov", "rel-rho-vs-rel-matrix"):
                if level == "hist-fit" and sign != "pos":
                    continue
                if pair == "rel-vs-abs-correlated" and sign == "mixed":
                    continue          # the two readings differ in the sign of off-diagonal terms (documented restriction, DESIGN C14)
                yield {"level": level, "sign": sign, "pair": pair}


CORM = np.array([[1.0, 0.3, 0.1, 0.0, -0.2], [0.3, 1.0, 0.25, 0.1, 0.0], [0.1, 0.25, 1.0, 0.4, 0.1], [0.0, 0.1, 0.4, 1.0, 0.3], [-0.2, 0.0, 0.1, 0.3, 1.0]])
ABS = np.array([0.3, 0.25, 0.4, 0.5, 0.45])


def two_forms(pair, ref):
    """-> (kind, kwargs) x 2 describing the same source; kind in {simple, matrix}"""
    if pair == "rel-vs-abs":
        return ("simple", dict(err_val=REL, relative=True)), ("simple", dict(err_val=REL * np.abs(ref)))
    if pair == "rel-vs-abs-correlated":
        return ("simple", dict(err_val=REL, relative=True, correlation=0.6)), ("simple", dict(err_val=REL * np.abs(ref), correlation=0.6))
    if pair == "cor+err-vs-cov":
        return ("matrix", dict(err_matrix=CORM, matrix_type="cor", err_val=ABS)), ("matrix", dict(err_matrix=CORM * np.outer(ABS, ABS), matrix_type="cov"))
    if pair == "rel-cor+err-vs-rel-cov":
        return ("matrix", dict(err_matrix=CORM, matrix_type="cor", err_val=REL, relative=True)), ("matrix", dict(err_matrix=CORM * np.outer(REL, REL), matrix_type="cov", relative=True))
    if pair == "rho-vs-matrix":
        M = np.outer(ABS, ABS) * (0.35 * np.ones((5, 5)) + 0.65 * np.eye(5))
        return ("simple", dict(err_val=ABS, correlation=0.35)), ("matrix", dict(err_matrix=M, matrix_type="cov"))
    if pair == "scalar-vs-vector":
        return ("simple", dict(err_val=0.37, correlation=0.2)), ("simple", dict(err_val=np.full(5, 0.37), correlation=0.2))
    if pair == "rel-scalar-vs-vector":
        return ("simple", dict(err_val=0.07, relative=True)), ("simple", dict(err_val=np.full(5, 0.07), relative=True))
    if pair == "rel-rho-vs-rel-matrix":
        return ("simple", dict(err_val=REL, relative=True, correlation=0.35)), ("matrix", dict(err_matrix=np.outer(REL, REL) * (0.35 * np.ones((5, 5)) + 0.65 * np.eye(5)), matrix_type="cov", relative=True))
    if pair == "rel-cov-vs-abs-cov":
        Mr = CORM * np.outer(REL, REL)
        return ("matrix", dict(err_matrix=Mr, matrix_type="cov", relative=True)), ("matrix", dict(err_matrix=Mr * np.outer(ref, ref), matrix_type="cov"))
    raise KeyError(pair)


def apply(target, form, axis=None):
    kind, kw = form
    kw = dict(kw)
    pre = (axis,) if axis is not None else ()
    if kind == "simple":
        target.add_error(*pre, kw.pop("err_val"), **kw)
    else:
        target.add_matrix_error(*pre, kw.pop("err_matrix"), kw.pop("matrix_type"), **kw)


@R.oracle("source_forms_agree", gen_source, obligation="SimpleGaussianError / MatrixGaussianError / add_error")
def source(inp):
    setvariant(inp.get("variant", 0))
    level, sign, pair = inp["level"], inp["sign"], inp["pair"]
    axis = level[-1] if level.startswith("xy") else None
    ref = XS[sign] if axis == "x" else YS[sign]
    if level == "hist-fit":
        fits = []
        for _ in range(2):
            h = HistContainer(5, (-3, 3), fill_data=list(np.linspace(-2.5, 2.5, 40) ** 3 / 6.0))
            fits.append(HistFit(h, cost_function="gauss_approximation"))
        ref = np.asarray(fits[0].data)
        if np.any(ref == 0):
            return None
        f1, f2 = two_forms(pair, ref)
        apply(fits[0], f1); apply(fits[1], f2)
        r = same(fits[0].total_cov_mat, fits[1].total_cov_mat, f"{pair}:hist-fit:total_cov_mat")
        if r:
            return r
        for p in [(0.1, 1.2), (-0.3, 0.9)]:
            fits[0].set_all_parameter_values(p); fits[1].set_all_parameter_values(p)
            r = same(fits[0].cost_function_value, fits[1].cost_function_value, f"{pair}:hist-fit:cost")
            if r:
                return r
        return None
    f1, f2 = two_forms(pair, ref)
    if level == "object":
        objs = []
        for kind, kw in (f1, f2):
            kw = dict(kw)
            if kind == "simple":
                ev = kw.pop("err_val")
                ev = np.full(5, ev) if np.ndim(ev) == 0 else ev       # the source class itself takes arrays only
                objs.append(err.SimpleGaussianError(ev, kw.pop("correlation", 0.0), relative=kw.pop("relative", False), reference=ref))
            else:
                objs.append(err.MatrixGaussianError(kw.pop("err_matrix"), kw.pop("matrix_type"), err_val=kw.pop("err_val", None), relative=kw.pop("relative", False), reference=ref))
        return same(objs[0].cov_mat, objs[1].cov_mat, f"{pair}:object:cov_mat:{sign}") or same(objs[0].error, objs[1].error, f"{pair}:object:error:{sign}") or \
            (None if sign == "mixed" else same(objs[0].cov_mat_rel, objs[1].cov_mat_rel, f"{pair}:object:cov_mat_rel:{sign}")) or (None if sign == "mixed" else same(objs[0].cor_mat, objs[1].cor_mat, f"{pair}:object:cor_mat:{sign}"))
        # (mixed-sign references: the relative VIEW of an absolute source is unsigned for simple sources and signed for matrix sources; only cov_mat enters a fit)
    if level == "indexed-container":
        c1, c2 = IndexedContainer(ref), IndexedContainer(ref)
        apply(c1, f1); apply(c2, f2)
        return same(c1.cov_mat, c2.cov_mat, f"{pair}:indexed-container:{sign}") or same(c1.err, c2.err, f"{pair}:indexed-container:err:{sign}")
    if level.startswith("xy-container"):
        xd, yd = (XS[sign], YS["pos"]) if axis == "x" else (X, YS[sign])
        c1, c2 = XYContainer(xd, yd), XYContainer(xd, yd)
        apply(c1, f1, axis); apply(c2, f2, axis)
        g = (lambda c: c.x_cov_mat) if axis == "x" else (lambda c: c.y_cov_mat)
        return same(g(c1), g(c2), f"{pair}:xy-container-{axis}:{sign}")
    if level == "indexed-fit":
        a, b = IndexedFit(ref, iline), IndexedFit(ref, iline)
        a.add_error(0.2); b.add_error(0.2)
        apply(a, f1); apply(b, f2)
        return costs_equal(a, b, f"{pair}:indexed-fit:{sign}")
    xd, yd = (XS[sign], YS["pos"]) if axis == "x" else (X, YS[sign])
    a, b = XYFit([xd, yd], line), XYFit([xd, yd], line)
    a.add_error("y", 0.2); b.add_error("y", 0.2)
    apply(a, f1, axis); apply(b, f2, axis)
    return costs_equal(a, b, f"{pair}:xy-fit-{axis}:{sign}")


# ------------------------------------------------------------------ 2. forms of a parameter constraint
def gen_con(tier, seed):
    for value_sign in ("pos", "neg", "mixed"):
        for pair in ("simple-rel-vs-abs", "matrix-rel-cov-vs-abs-cov", "matrix-cor+unc-vs-cov", "matrix-cor+rel-unc-vs-cov", "matrix-cor+unc-rebuilt-from-its-relative-view", "fit-simple-rel-vs-abs", "fit-matrix-cor-vs-cov", "fit-matrix-rel-vs-abs"):
            yield {"values": value_sign, "pair": pair}


@R.oracle("constraint_forms_agree", gen_con, obligation="GaussianSimpleParameterConstraint / GaussianMatrixParameterConstraint")
def constraint(inp):
    vals = {"pos": np.array([1.3, 0.7]), "neg": np.array([-1.3, -0.7]), "mixed": np.array([1.3, -0.7])}[inp["values"]]
    cor = np.array([[1.0, 0.4], [0.4, 1.0]])
    unc, rel = np.array([0.2, 0.05]), np.array([0.1, 0.08])
    pts = [np.array([1.0, 0.5, 3.0]), np.array([-2.0, 0.1, 0.4]), np.array([0.3, -1.1, 2.2])]
    pair = inp["pair"]
    if pair == "simple-rel-vs-abs":
        a, b = con.GaussianSimpleParameterConstraint(1, vals[0], 0.1, relative=True), con.GaussianSimpleParameterConstraint(1, vals[0], 0.1 * abs(vals[0]))
    elif pair == "matrix-rel-cov-vs-abs-cov":
        Mr = cor * np.outer(rel, rel)
        a, b = con.GaussianMatrixParameterConstraint([2, 0], vals, Mr, relative=True), con.GaussianMatrixParameterConstraint([2, 0], vals, Mr * np.outer(vals, vals))
    elif pair == "matrix-cor+unc-vs-cov":
        a, b = con.GaussianMatrixParameterConstraint([2, 0], vals, cor, matrix_type="cor", uncertainties=unc), con.GaussianMatrixParameterConstraint([2, 0], vals, cor * np.outer(unc, unc))
    elif pair == "matrix-cor+unc-rebuilt-from-its-relative-view":          # what a constraint reports as its relative form describes the same constraint (this is what is written to files)
        b = con.GaussianMatrixParameterConstraint([2, 0], vals, cor, matrix_type="cor", uncertainties=unc)
        a = con.GaussianMatrixParameterConstraint([2, 0], vals, np.asarray(b.cor_mat), matrix_type="cor", uncertainties=np.asarray(b.uncertainties_rel), relative=True)
    elif pair == "matrix-cor+rel-unc-vs-cov":
        a = con.GaussianMatrixParameterConstraint([2, 0], vals, cor, matrix_type="cor", uncertainties=rel, relative=True)
        b = con.GaussianMatrixParameterConstraint([2, 0], vals, cor * np.outer(rel * vals, rel * vals))
    else:
        fa, fb = XYFit([X, YS["pos"]], lambda x, a=1.0, b=0.5, c=0.1: a * x * x + b * x + c), XYFit([X, YS["pos"]], lambda x, a=1.0, b=0.5, c=0.1: a * x * x + b * x + c)
        for f in (fa, fb):
            f.add_error("y", 0.3)
        if pair == "fit-simple-rel-vs-abs":
            fa.add_parameter_constraint("b", vals[0], 0.1, relative=True); fb.add_parameter_constraint("b", vals[0], 0.1 * abs(vals[0]))
        elif pair == "fit-matrix-cor-vs-cov":
            fa.add_matrix_parameter_constraint(["c", "a"], vals, cor, matrix_type="cor", uncertainties=unc); fb.add_matrix_parameter_constraint(["c", "a"], vals, cor * np.outer(unc, unc))
        else:
            Mr = cor * np.outer(rel, rel)
            fa.add_matrix_parameter_constraint(["c", "a"], vals, Mr, relative=True); fb.add_matrix_parameter_constraint(["c", "a"], vals, Mr * np.outer(vals, vals))
        for p in pts:
            fa.set_all_parameter_values(p); fb.set_all_parameter_values(p)
            r = same(fa.cost_function_value, fb.cost_function_value, pair + ":" + inp["values"])
            if r:
                return r
        return None
    for p in pts:
        r = same(a.cost(p), b.cost(p), pair + ":" + inp["values"])
        if r:
            return r
    if hasattr(a, "cov_mat"):
        r = same(a.cov_mat, b.cov_mat, pair + ":cov_mat:" + inp["values"])
        if r or inp["values"] != "pos":         # with non-positive values the relative form reports signed uncertainties / the correlation as given: not part of the cost surface
            return r
        return same(a.cor_mat, b.cor_mat, pair + ":cor_mat:" + inp["values"]) or same(a.uncertainties, b.uncertainties, pair + ":uncertainties:" + inp["values"])
    return same(abs(a.uncertainty), abs(b.uncertainty), pair + ":uncertainty:" + inp["values"])


# ------------------------------------------------------------------ 3. wrapper functions vs explicit fits
WRAP_KW = {"report": False, "profile": False, "save": False}


def gen_wrap(tier, seed):
    errs = [{}, {"y_error": 0.3}, {"y_error": list(ABS)}, {"y_error": 0.3, "x_error": 0.1}, {"y_error_rel": 0.05}, {"y_error_rel": 0.05, "errors_rel_to_model": False}, {"x_error_rel": 0.04, "y_error": 0.2},
            {"y_error_cor": 0.2, "y_error": 0.1}, {"y_error_cor": [0.2, 0.1], "y_error": 0.1}, {"y_error_cor_rel": 0.03, "y_error": 0.2}, {"x_error_cor": 0.05, "y_error": 0.2}, {"x_error_cor_rel": 0.02, "y_error": 0.2},
            {"y_error": (np.outer(ABS, ABS) * CORM).tolist()}, {"y_error_rel": (np.outer(REL, REL) * CORM).tolist(), "errors_rel_to_model": False}, {"x_error": (0.01 * CORM).tolist(), "y_error": 0.2}]
    extras = [{}, {"p0": [2.0, -1.0]}, {"limits": ("a", 0.0, 1.5)}, {"limits": [("a", 0.0, 1.5), ("b", -1.0, 3.0)]}, {"fixed": ("b", 0.4)}, {"fixed": [("b", 0.4)]}, {"fixed": ("b",)}, {"constraints": ("a", 1.8, 0.1)},
              {"constraints": [("a", 1.8, 0.1), ("b", 0.2, 0.3)]}, {"dp0": [0.5, 0.5]}, {"p0": [2.0, -1.0], "fixed": ("b",)}, {"p0": [0.9, 0.3], "limits": ("a", 0.0, 1.5), "constraints": ("b", 0.2, 0.3)}]
    for e in errs:
        yield {"wrapper": "xy_fit", "errors": e, "extra": {}}
    for x in extras:
        yield {"wrapper": "xy_fit", "errors": {"y_error": 0.3}, "extra": x}
    A6 = list(ABS) + [0.35]
    C6 = 0.8 * np.eye(6) + 0.2
    for e in [{"error": 0.3}, {"error": list(ABS)}, {"error_rel": 0.05}, {"error_rel": 0.05, "errors_rel_to_model": False}, {"error_cor": 0.2, "error": 0.1}, {"error_cor_rel": 0.04, "error": 0.1},
              {"error": (np.outer(ABS, ABS) * CORM).tolist()}, {"error_cor": [0.1, 0.2], "error": 0.1}, {"error_rel": (np.outer(REL, REL) * CORM).tolist(), "errors_rel_to_model": False}]:
        yield {"wrapper": "indexed_fit", "errors": e, "extra": {}}
    for e in [{"error": 0.3}, {"error": A6}, {"error_rel": 0.05}, {"error_rel": 0.05, "errors_rel_to_model": False}, {"error_cor": 0.2, "error": 0.1}, {"error_cor_rel": 0.04, "error": 0.1},
              {"error": (np.outer(A6, A6) * C6).tolist()}, {"error_cor": [0.1, 0.2], "error": 0.1}, {"error_cor_rel": 0.04}, {"error_cor": 0.2}]:
        yield {"wrapper": "hist_fit", "errors": e, "extra": {}}
    yield {"wrapper": "hist_fit", "errors": {}, "extra": {}}
    yield {"wrapper": "hist_fit", "errors": {}, "extra": {"density": False}}
    yield {"wrapper": "hist_fit", "errors": {}, "extra": {"data_form": "container"}}
    yield {"wrapper": "hist_fit", "errors": {"error": 0.3}, "extra": {"data_form": "container"}}
    yield {"wrapper": "hist_fit", "errors": {}, "extra": {"data_form": "numpy-histogram"}}
    yield {"wrapper": "hist_fit", "errors": {}, "extra": {"gauss_approximation": True}}
    yield {"wrapper": "unbinned_fit", "errors": {}, "extra": {}}
    yield {"wrapper": "unbinned_fit", "errors": {}, "extra": {"fixed": ("sigma", 1.1)}}
    yield {"wrapper": "custom_fit", "errors": {}, "extra": {}}
    yield {"wrapper": "custom_fit", "errors": {}, "extra": {"limits": ("a", 0.0, 0.5)}}
    yield {"wrapper": "Fit", "errors": {}, "extra": {}}


def explicit_generic(fit, extra):
    if "p0" in extra:
        fit.set_all_parameter_values(extra["p0"])
    if "dp0" in extra:
        fit.parameter_errors = extra["dp0"]
    norm = lambda v: [v] if not isinstance(v[0], (list, tuple)) else list(v)
    for l in norm(extra["limits"]) if "limits" in extra else []:
        fit.limit_parameter(*l)
    for fx in norm(extra["fixed"]) if "fixed" in extra else []:
        fit.fix_parameter(*fx)
    for c in norm(extra["constraints"]) if "constraints" in extra else []:
        fit.add_parameter_constraint(*c)


def norm_pdf(x, mu=0.1, sigma=1.2):
    return np.exp(-0.5 * ((x - mu) / sigma) ** 2) / np.sqrt(2 * np.pi * sigma ** 2)


def custom_cost(a=0.3, b=1.0):
    return (a - 0.7) ** 2 / 0.04 + (b + 0.2) ** 2 / 0.09 + 0.5 * a * b


def add_generic(fit, e, xy_axis=None):
    """the documented meaning of the wrapper's error keywords, written out as explicit calls"""
    to_model = e.get("errors_rel_to_model", True)
    pre = lambda ax: (ax,) if xy_axis else ()
    for key, val in e.items():
        if key == "errors_rel_to_model":
            continue
        ax = key[0] if xy_axis else None
        base = key[2:] if xy_axis else key
        rel = base.endswith("_rel")
        cor = "_cor" in base
        ref = "model" if (rel and to_model and ax in (None, "y")) else "data"
        arr = np.asarray(val)
        if cor:
            for v in np.atleast_1d(arr):
                fit.add_error(*pre(ax), float(v), correlation=1.0, relative=rel, reference=ref)
        elif arr.ndim == 2:
            fit.add_matrix_error(*pre(ax), arr, "cov", relative=rel, reference=ref)
        else:
            fit.add_error(*pre(ax), val, relative=rel, reference=ref)


@R.oracle("wrapper_equals_explicit_fit", gen_wrap, obligation="kafe2.fit.util.wrapper")
def wrap(inp):
    w, e, extra = inp["wrapper"], inp["errors"], inp["extra"]
    cwd = os.getcwd()
    tmp = tempfile.mkdtemp(prefix="c14_")
    os.chdir(tmp)
    try:
        y = YS["pos"]
        raw = list(np.linspace(-2.5, 2.5, 40) ** 3 / 6.0)
        if w == "xy_fit":
            res = wrapper.xy_fit(line, X, y, **e, **extra, **WRAP_KW)
            g = XYFit([X, y], line)
            add_generic(g, e, xy_axis=True)
        elif w == "indexed_fit":
            res = wrapper.indexed_fit(iline, y, **e, **extra, **WRAP_KW)
            g = IndexedFit(y, iline)
            add_generic(g, e)
        elif w == "hist_fit":
            kw = dict(extra)
            form = kw.pop("data_form", "raw")          # the three documented forms of the data argument describe the same histogram
            if form == "raw":
                res = wrapper.hist_fit(norm_pdf, raw, n_bins=6, bin_range=(-3, 3), **e, **kw, **WRAP_KW)
            elif form == "container":
                res = wrapper.hist_fit(norm_pdf, HistContainer(6, (-3, 3), fill_data=raw), **e, **kw, **WRAP_KW)
            else:
                res = wrapper.hist_fit(norm_pdf, np.histogram(raw, bins=6, range=(-3, 3)), **e, **kw, **WRAP_KW)
            ga = kw.get("gauss_approximation")
            if ga is None:
                ga = any(k != "errors_rel_to_model" for k in e)
            g = HistFit(HistContainer(6, (-3, 3), fill_data=raw), norm_pdf, cost_function="gauss_approximation" if ga else "poisson", density=kw.get("density", True))
            add_generic(g, e)
            extra = {}
        elif w == "unbinned_fit":
            res = wrapper.unbinned_fit(norm_pdf, raw, **extra, **WRAP_KW)
            g = UnbinnedFit(raw, norm_pdf)
        elif w == "custom_fit":
            res = wrapper.custom_fit(custom_cost, **extra, **WRAP_KW)
            g = kafe2.CustomFit(custom_cost)
        else:
            f1 = kafe2.Fit([X, y], line)
            f2 = kafe2.Fit(XYContainer(X, y), line)
            f1.add_error("y", 0.3); f2.add_error("y", 0.3)
            g = XYFit([X, y], line); g.add_error("y", 0.3)
            return costs_equal(f1, g, "Fit(list)") or costs_equal(f2, g, "Fit(container)") or (None if type(f1) is XYFit else {"got": str(type(f1)), "expected": "XYFit", "witness_class": "Fit:type"})
        explicit_generic(g, extra)
        g.do_fit()
        f = res["fit"]
        tag = w + ":" + "+".join(sorted(e) + sorted(extra))
        if list(f.parameter_names) != list(g.parameter_names):
            return {"got": list(f.parameter_names), "expected": list(g.parameter_names), "witness_class": tag + ":names"}
        if w not in ("custom_fit", "unbinned_fit"):
            r = same(f.total_cov_mat, g.total_cov_mat, tag + ":total_cov_mat", 1e-8)
            if r:
                return r
        if dict(f._fitter.fixed_parameters) != dict(g._fitter.fixed_parameters):
            return {"got": dict(f._fitter.fixed_parameters), "expected": dict(g._fitter.fixed_parameters), "witness_class": tag + ":fixed"}
        if dict(f._fitter.limited_parameters) != dict(g._fitter.limited_parameters):
            return {"got": dict(f._fitter.limited_parameters), "expected": dict(g._fitter.limited_parameters), "witness_class": tag + ":limits"}
        if len(f.parameter_constraints) != len(g.parameter_constraints):
            return {"got": len(f.parameter_constraints), "expected": len(g.parameter_constraints), "witness_class": tag + ":constraints"}
        tolv = 2e-2 * np.max(np.abs(g.parameter_errors)) if np.all(np.isfinite(g.parameter_errors)) else 1e-3
        if not np.allclose(f.parameter_values, g.parameter_values, rtol=1e-4, atol=tolv):
            return {"got": list(f.parameter_values), "expected": list(g.parameter_values), "witness_class": tag + ":fitted-values"}
        # the cost surfaces agree at common points (free parameters only moved)
        for p in ([0.8, 0.3], [1.7, -0.4]):
            vals = dict(zip(g.parameter_names, p))
            for nm in set(f._fitter.fixed_parameters):
                vals.pop(nm, None)
            f.set_parameter_values(**vals); g.set_parameter_values(**vals)
            r = same(f.cost_function_value, g.cost_function_value, tag + ":cost", 1e-8)
            if r:
                return r
        rd = same(res["parameter_values"] if not isinstance(res["parameter_values"], dict) else list(res["parameter_values"].values()), np.asarray(res["parameter_values"] if not isinstance(res["parameter_values"], dict) else list(res["parameter_values"].values())), tag)
        return rd
    finally:
        os.chdir(cwd)
        for root_, dirs, files in os.walk(tmp, topdown=False):
            for fn in files:
                os.remove(os.path.join(root_, fn))
            for d in dirs:
                os.rmdir(os.path.join(root_, d))
        os.rmdir(tmp)


# ------------------------------------------------------------------ 4. forms of a model
def gen_model(tier, seed):
    lib = imp("kafe2.fit.util.function_library")
    for name in sorted(lib.STRING_TO_FUNCTION):
        yield {"form": "library-name", "name": name}
    for spec in ("f: x a=1.0 b=0.5 -> a*x+b", "x a=1.0 b=0.5 -> a * x + b", "g: x a=1.0 b=0.5 -> b + x*a", "q: x a b=2.5 -> a*x**2 + b", "e: x a=1.0 b=0.5 -> a*exp(b*x/5)"):
        yield {"form": "sympy", "spec": spec}
    for text in ("def f(x, a=1.0, b=0.5):\n    return a * x + b\n", "def model(x, a=1.0, b=0.5): return a * x + b", "def f(x, a=1.0, b=0.5):\n    return np.multiply(a, x) + b\n"):
        yield {"form": "source-text", "text": text}


@R.oracle("model_forms_agree", gen_model, obligation="ModelFunctionBase.__init__ / _parse_function")
def model(inp):
    lib = imp("kafe2.fit.util.function_library")
    y = YS["pos"]
    if inp["form"] == "library-name":
        fn = lib.STRING_TO_FUNCTION[inp["name"]]
        a, b = XYFit([X, y], inp["name"]), XYFit([X, y], fn)
        ref_names = None
    elif inp["form"] == "sympy":
        spec = inp["spec"]
        body = spec.split("->")[1]
        sym = spec.split("->")[0].split(":")[-1].split()
        names = [s.split("=")[0] for s in sym]
        defaults = [float(s.split("=")[1]) if "=" in s else 1.0 for s in sym[1:]]
        ns = {"exp": np.exp}
        exec("def ref(" + ", ".join([names[0]] + [f"{n}={d}" for n, d in zip(names[1:], defaults)]) + "): return " + body, ns)
        a, b = XYFit([X, y], spec), XYFit([X, y], ns["ref"])
        ref_names = names[1:]
    else:
        yaml_text = "type: xy\nx_data: %s\ny_data: %s\nmodel_function: |\n%s" % ([float(v) for v in X], [float(v) for v in y], "".join("  " + l + "\n" for l in inp["text"].splitlines()))
        a = XYFit.from_file(io.StringIO(yaml_text)) if hasattr(XYFit, "from_file") and False else None
        rd = imp("kafe2.fit.representation").FitYamlReader(io.StringIO(yaml_text))
        a = rd.read()
        b = XYFit([X, y], line)
        ref_names = ["a", "b"]
    if list(a.parameter_names) != list(b.parameter_names) or (ref_names and list(a.parameter_names) != ref_names):
        return {"got": list(a.parameter_names), "expected": list(b.parameter_names), "witness_class": inp["form"] + ":parameter-names"}
    r = same(a.parameter_values, b.parameter_values, inp["form"] + ":defaults")
    if r:
        return r
    for f in (a, b):
        f.add_error("y", 0.3)
    n = len(a.parameter_names)
    for p in ([1.0, 0.5, 0.2, 0.1][:n], [2.3, 1.5, -0.4, 0.3][:n], [0.7, 4.0, 1.1, -0.2][:n]):
        a.set_all_parameter_values(p); b.set_all_parameter_values(p)
        r = same(a.cost_function_value, b.cost_function_value, inp["form"] + ":cost") or same(a.model, b.model, inp["form"] + ":model-values")
        if r:
            return r


# ------------------------------------------------------------------ 5. YAML shorthand vs explicit YAML
def read_yaml(text):
    return imp("kafe2.fit.representation").FitYamlReader(io.StringIO(text)).read()


def xy_explicit(sources):
    """sources: list of (axis, kwargs) -> fit built with explicit calls"""
    f = XYFit([X, YS["pos"]], line)
    for ax, kw in sources:
        kw = dict(kw)
        f.add_error(ax, kw.pop("err_val"), **kw)
    return f


def gen_yaml(tier, seed):
    yield {"case": "y-scalar"}
    yield {"case": "y-int-scalar"}
    yield {"case": "y-percent"}
    yield {"case": "x-scalar"}
    yield {"case": "x-percent"}
    yield {"case": "y-list"}
    yield {"case": "y-mixed-list"}
    yield {"case": "y-object-list"}
    yield {"case": "y-single-object"}
    yield {"case": "x-single-object"}
    yield {"case": "top-level-vs-nested"}
    yield {"case": "model-parameters-top-level"}
    yield {"case": "indexed-scalar"}
    yield {"case": "indexed-list"}
    yield {"case": "indexed-single-object"}
    for sh in ("int-scalar", "percent", "int-list", "percent-first-list"):
        yield {"case": "indexed-" + sh}
        yield {"case": "hist-" + sh}
    yield {"case": "hist-top-level"}
    yield {"case": "constraints-dict-vs-list"}


L = lambda a: [float(v) for v in np.asarray(a).ravel()] if np.ndim(a) == 1 else np.asarray(a, float).tolist()
HEAD = "type: xy\nx_data: %s\ny_data: %s\nmodel_function: linear_model\n" % (L(X), L(YS["pos"]))


@R.oracle("yaml_shorthand_equals_explicit", gen_yaml, obligation="process_error_sources / FitYamlReader")
def yaml_short(inp):
    c = inp["case"]
    exp = None
    if c == "y-scalar":
        got, exp = read_yaml(HEAD + "y_errors: 0.3\n"), xy_explicit([("y", dict(err_val=0.3))])
    elif c == "y-int-scalar":
        got, exp = read_yaml(HEAD + "y_errors: 1\n"), xy_explicit([("y", dict(err_val=1.0))])
    elif c == "y-percent":
        got, exp = read_yaml(HEAD + "y_errors: 5%\n"), xy_explicit([("y", dict(err_val=0.05, relative=True))])
    elif c == "x-scalar":
        got, exp = read_yaml(HEAD + "x_errors: 0.1\ny_errors: 0.3\n"), xy_explicit([("x", dict(err_val=0.1)), ("y", dict(err_val=0.3))])
    elif c == "x-percent":
        got, exp = read_yaml(HEAD + "x_errors: 2%\ny_errors: 0.3\n"), xy_explicit([("x", dict(err_val=0.02, relative=True)), ("y", dict(err_val=0.3))])
    elif c == "y-list":
        got, exp = read_yaml(HEAD + "y_errors: %s\n" % L(ABS)), xy_explicit([("y", dict(err_val=ABS))])
    elif c == "y-mixed-list":
        got = read_yaml(HEAD + "y_errors: [0.3, 5%, 0.4, 10%, 0.2]\n")
        exp = xy_explicit([("y", dict(err_val=np.array([0, 0.05, 0, 0.10, 0]), relative=True)), ("y", dict(err_val=np.array([0.3, 0, 0.4, 0, 0.2])))])
    elif c == "y-object-list":
        got = read_yaml(HEAD + "y_errors:\n  - type: simple\n    error_value: 0.3\n    correlation_coefficient: 0.5\n  - error_value: 0.04\n    relative: true\n")
        exp = xy_explicit([("y", dict(err_val=0.3, correlation=0.5)), ("y", dict(err_val=0.04, relative=True))])
    elif c == "y-single-object":
        got = read_yaml(HEAD + "y_errors:\n  type: simple\n  error_value: 0.3\n  correlation_coefficient: 0.5\n")
        exp = xy_explicit([("y", dict(err_val=0.3, correlation=0.5))])
    elif c == "x-single-object":
        got = read_yaml(HEAD + "x_errors:\n  type: simple\n  error_value: 0.1\ny_errors: 0.3\n")
        exp = xy_explicit([("x", dict(err_val=0.1)), ("y", dict(err_val=0.3))])
    elif c == "top-level-vs-nested":
        got = read_yaml(HEAD + "y_errors: 0.3\nx_errors: 0.1\n")
        exp = read_yaml("type: xy\ndataset:\n  type: xy\n  x_data: %s\n  y_data: %s\n  x_errors:\n    - type: simple\n      error_value: 0.1\n  y_errors:\n    - type: simple\n      error_value: 0.3\n"
                        "parametric_model:\n  type: xy\n  x_data: %s\n  model_function: linear_model\n" % (L(X), L(YS["pos"]), L(X)))
    elif c == "model-parameters-top-level":
        got = read_yaml(HEAD + "y_errors: 0.3\nmodel_parameters: [2.5, -1.0]\n")
        exp = xy_explicit([("y", dict(err_val=0.3))])
        exp.set_all_parameter_values([2.5, -1.0])
        r = same(got.parameter_values, exp.parameter_values, c + ":values")
        if r:
            return r
    elif c.startswith("indexed"):
        head = "type: indexed\ndata: %s\nmodel_function: |\n  def iline(a=1.0, b=0.5):\n      return a * np.arange(5) + b\n" % L(YS["pos"])
        exp = IndexedFit(YS["pos"], iline)
        if c == "indexed-scalar":
            got = read_yaml(head + "errors: 0.3\n"); exp.add_error(0.3)
        elif c == "indexed-int-scalar":
            got = read_yaml(head + "errors: 1\n"); exp.add_error(1.0)
        elif c == "indexed-percent":
            got = read_yaml(head + "errors: 5%\n"); exp.add_error(0.05, relative=True)
        elif c == "indexed-int-list":
            got = read_yaml(head + "errors: [1, 2, 3, 2, 1]\n"); exp.add_error([1.0, 2.0, 3.0, 2.0, 1.0])
        elif c == "indexed-percent-first-list":
            got = read_yaml(head + "errors: [5%, 0.1, 0.2, 10%, 0.1]\n"); exp.add_error(np.array([0.05, 0, 0, 0.10, 0]), relative=True); exp.add_error(np.array([0, 0.1, 0.2, 0, 0.1]))
        elif c == "indexed-list":
            got = read_yaml(head + "errors: %s\n" % L(ABS)); exp.add_error(ABS)
        else:
            got = read_yaml(head + "errors:\n  type: simple\n  error_value: 0.3\n  correlation_coefficient: 0.5\n"); exp.add_error(0.3, correlation=0.5)
    elif c.startswith("hist-") and c != "hist-top-level":
        raw = [round(float(v), 3) for v in np.linspace(-2.5, 2.5, 40) ** 3 / 6.0]
        head = "type: histogram\nn_bins: 6\nbin_range: [-3, 3]\nraw_data: %s\nmodel_density_function: normal_distribution\ncost_function: gauss_approximation\n" % raw
        exp = HistFit(HistContainer(6, (-3, 3), fill_data=raw), "normal_distribution", cost_function="gauss_approximation")
        sh = c[5:]
        if sh == "int-scalar":
            got = read_yaml(head + "errors: 1\n"); exp.add_error(1.0)
        elif sh == "percent":
            got = read_yaml(head + "errors: 5%\n"); exp.add_error(0.05, relative=True)
        elif sh == "int-list":
            got = read_yaml(head + "errors: [1, 2, 3, 2, 1, 2]\n"); exp.add_error([1.0, 2.0, 3.0, 2.0, 1.0, 2.0])
        else:
            got = read_yaml(head + "errors: [5%, 0.1, 0.2, 10%, 0.1, 0.3]\n"); exp.add_error(np.array([0.05, 0, 0, 0.10, 0, 0]), relative=True); exp.add_error(np.array([0, 0.1, 0.2, 0, 0.1, 0.3]))
        r = same(got.total_cov_mat, exp.total_cov_mat, c + ":total_cov_mat")
        if r:
            return r
        for p in [(0.1, 1.2), (-0.3, 0.9)]:
            got.set_all_parameter_values(p); exp.set_all_parameter_values(p)
            r = same(got.cost_function_value, exp.cost_function_value, c + ":cost")
            if r:
                return r
        return None
    elif c == "hist-top-level":
        raw = [round(float(v), 3) for v in np.linspace(-2.5, 2.5, 40) ** 3 / 6.0]
        got = read_yaml("type: histogram\nn_bins: 6\nbin_range: [-3, 3]\nraw_data: %s\nmodel_density_function: normal_distribution\n" % raw)
        exp = HistFit(HistContainer(6, (-3, 3), fill_data=raw), "normal_distribution")
        for p in [(0.1, 1.2), (-0.3, 0.9)]:
            got.set_all_parameter_values(p); exp.set_all_parameter_values(p)
            r = same(got.cost_function_value, exp.cost_function_value, c + ":cost") or same(got.data, exp.data, c + ":data")
            if r:
                return r
        return None
    elif c == "constraints-dict-vs-list":
        got = read_yaml(HEAD + "y_errors: 0.3\nparameter_constraints:\n  a:\n    value: 1.8\n    uncertainty: 0.1\n")
        exp = read_yaml(HEAD + "y_errors: 0.3\nparameter_constraints:\n  - type: simple\n    name: a\n    value: 1.8\n    uncertainty: 0.1\n")
        ref = xy_explicit([("y", dict(err_val=0.3))]); ref.add_parameter_constraint("a", 1.8, 0.1)
        r = costs_equal(got, ref, c + ":dict-form") or costs_equal(exp, ref, c + ":list-form")
        return r
    return costs_equal(got, exp, c)       # (the shorthand may add a zero-size companion source: only the resulting matrices and costs are compared)


sys.exit(R.main())
