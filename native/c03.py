"""Native side of C03 (bounded): histories of public operations on real fits, with reads of observables interleaved.

oracle 1 (reads are invisible): the same operations on a second fit WITHOUT the reads in between give the same observables at the end.
oracle 2 (no history): a NEW fit constructed with the final data and brought directly to the same configuration (sources, constraints,
          parameter values, fixed / limited parameters) reports the same cost, model values, uncertainties, covariance matrices, ndf and
          goodness of fit - in particular after a fit has run and the parameters were moved afterwards (nothing stays pinned)."""
import itertools, sys, warnings
from common import parse, Runner, imp

args = parse()
import numpy as np
warnings.simplefilter("ignore")
kafe2 = imp("kafe2")
XYFit, IndexedFit, HistFit, UnbinnedFit, HistContainer = kafe2.XYFit, kafe2.IndexedFit, kafe2.HistFit, kafe2.UnbinnedFit, kafe2.HistContainer
R = Runner("C03", args, scope="xy / indexed / histogram / unbinned fits x both back ends x both dynamic-error algorithms x operation sequences of length <= 3 (quick) / <= 4 + seeded longer ones (thorough) over "
                              "{add / disable / enable sources (absolute, relative to data, relative to model, correlated, matrix), simple and matrix constraints, set / fix / release / limit / unlimit parameters, "
                              "replace the data, do_fit} with reads of single observables or of all of them after every operation",
           rule="history enumeration; end-state observables of the fit with reads vs. the same operations without reads, and vs. a newly constructed fit brought directly to the same configuration")
R.shards = 14

X = np.array([0.5, 1.5, 2.5, 3.5, 4.5, 5.5])
Y = np.array([1.3, 2.8, 5.4, 6.9, 9.5, 10.4])
Y2 = np.array([2.1, 3.9, 6.2, 8.4, 9.9, 12.6])
RAW = [round(float(v), 3) for v in np.linspace(-2.6, 2.9, 50) ** 3 / 8.0]
RAW2 = [round(float(v), 3) for v in np.linspace(-2.2, 2.7, 80) ** 3 / 7.0]


def line(x, a=1.5, b=0.4):
    return a * x + b


def iline(a=1.5, b=0.4):
    return a * np.arange(6) + b + 1.0


def normal(x, mu=0.1, sigma=1.2):
    return np.exp(-0.5 * ((x - mu) / sigma) ** 2) / np.sqrt(2.0 * np.pi * sigma ** 2)


PAR = {"xy": ("a", "b"), "indexed": ("a", "b"), "hist": ("mu", "sigma"), "unbinned": ("mu", "sigma"), "hist_ga": ("mu", "sigma"), "hist_np": ("mu", "sigma")}
ALT = {"xy": (1.8, 0.1), "indexed": (1.8, 0.1), "hist": (0.25, 1.05), "unbinned": (0.25, 1.05), "hist_ga": (0.25, 1.05), "hist_np": (0.25, 1.05)}


def construct(kind, backend, data_version=0, dea="nonlinear", container=False):
    if kind == "xy":
        f = XYFit(new_data(kind, data_version) if container else [X, Y if data_version == 0 else Y2], line, minimizer=backend)
    elif kind == "indexed":
        f = IndexedFit(new_data(kind, data_version) if container else (Y if data_version == 0 else Y2), iline, minimizer=backend)
    elif kind == "hist":
        f = HistFit(HistContainer(8, (-3, 3), fill_data=RAW if data_version == 0 else RAW2), normal, minimizer=backend)
    elif kind == "hist_ga":          # Gaussian approximation of the Poisson likelihood: the cost function object carries a determinant flag of its own
        f = HistFit(HistContainer(8, (-3, 3), fill_data=RAW if data_version == 0 else RAW2), normal, cost_function="gauss_approximation", minimizer=backend)
    elif kind == "hist_np":          # constructed from a numpy histogram (heights, edges) instead of a container
        f = HistFit(np.histogram(RAW if data_version == 0 else RAW2, bins=8, range=(-3, 3)), normal, cost_function="gauss_approximation", minimizer=backend)
    else:
        f = UnbinnedFit(RAW if data_version == 0 else RAW2, normal, minimizer=backend)
    f.dynamic_error_algorithm = dea
    return f


def new_data(kind, version):
    """a container of the fit's own type; for xy / indexed data it carries one absolute uncertainty source, so the configuration after the
    replacement is a regular one (positive-definite total covariance)"""
    if kind == "xy":
        c = kafe2.XYContainer(X, Y2 if version else Y)
        c.add_error("y", 0.35)
        return c
    if kind == "indexed":
        c = kafe2.IndexedContainer(Y2 if version else Y)
        c.add_error(0.35)
        return c
    if kind in ("hist", "hist_ga"):
        return HistContainer(8, (-3, 3), fill_data=RAW2 if version else RAW)
    if kind == "hist_np":
        return np.histogram(RAW2 if version else RAW, bins=8, range=(-3, 3))
    return RAW2 if version else RAW


COV = (0.04 * np.eye(6) + 0.01).tolist()


def apply(f, kind, op, ids):
    """one public mutator; `ids` collects the ids of the sources added so far"""
    name, *a = op
    p = PAR[kind]
    if name == "add":          # (relative, reference, correlation, axis)
        rel, ref, cor, axis = a
        pre = (axis,) if kind == "xy" else ()
        ids.append(f.add_error(*pre, 0.05 if rel else 0.3, relative=rel, reference=ref, correlation=cor))
    elif name == "add_matrix":
        pre = ("y",) if kind == "xy" else ()
        ids.append(f.add_matrix_error(*pre, COV, "cov"))
    elif name == "disable":
        f.disable_error(ids[a[0]])
    elif name == "enable":
        f.enable_error(ids[a[0]])
    elif name == "constraint":
        f.add_parameter_constraint(p[a[0]], ALT[kind][a[0]], 0.1 * abs(ALT[kind][a[0]]) + 0.05)
    elif name == "matrix_constraint":
        f.add_matrix_parameter_constraint(list(p), list(ALT[kind]), [[0.04, 0.01], [0.01, 0.09]])
    elif name == "set":
        f.set_parameter_values(**{p[a[0]]: ALT[kind][a[0]] * a[1]})
    elif name == "set_all":
        f.set_all_parameter_values([v * a[0] for v in ALT[kind]])
    elif name == "fix":
        f.fix_parameter(p[a[0]], None if a[1] is None else ALT[kind][a[0]] * a[1])
    elif name == "release":
        f.release_parameter(p[a[0]])
    elif name == "limit":
        f.limit_parameter(p[a[0]], ALT[kind][a[0]] - 3.0, ALT[kind][a[0]] + 3.0)
    elif name == "unlimit":
        f.unlimit_parameter(p[a[0]])
    elif name == "data":
        f.data = new_data(kind, a[0])
        ids.clear()            # raw data / a new container: the fit now holds a new container and a new parametric model (their sources are gone)
    elif name == "failed_fit":          # a minimisation that raises (nothing left to fit): afterwards the fit is configured as before
        free = [n_ for n_ in p if n_ not in f._fitter.fixed_parameters]
        for n_ in free:
            f.fix_parameter(n_)
        try:
            f.do_fit()
        except RuntimeError:
            pass
        for n_ in free:
            f.release_parameter(n_)
    elif name == "fit":
        f.do_fit()
    else:
        raise ValueError(name)


OBS = {
    "xy": ["model", "data", "cost_function_value", "y_model", "x_model", "y_data", "x_data", "y_data_error", "x_data_error", "y_model_error", "x_model_error", "y_total_error", "x_total_error", "total_error", "y_data_cov_mat", "y_model_cov_mat",
           "y_total_cov_mat", "x_total_cov_mat", "total_cov_mat", "ndf", "goodness_of_fit", "chi2_probability", "parameter_values", "has_errors", "did_fit"],
    "indexed": ["model", "data", "cost_function_value", "data_error", "model_error", "total_error", "data_cov_mat", "model_cov_mat", "total_cov_mat", "ndf", "goodness_of_fit", "chi2_probability", "parameter_values", "has_errors", "did_fit"],
    "hist": ["model", "data", "cost_function_value", "data_error", "model_error", "total_error", "data_cov_mat", "model_cov_mat", "total_cov_mat", "ndf", "goodness_of_fit", "parameter_values", "has_errors", "did_fit"],
    "unbinned": ["model", "data", "cost_function_value", "ndf", "parameter_values", "did_fit"],
}
OBS["hist_ga"] = OBS["hist_np"] = OBS["hist"]
RESULT_OBS = ["parameter_errors", "parameter_cov_mat"]


def read(f, name):
    if name == "result_dict":
        return f.get_result_dict()
    return getattr(f, name)


def observe(f, kind, with_results):
    out = {}
    first = ["did_fit"] + (RESULT_OBS if with_results else [])          # results first: a getter that disturbs them must not hide behind the order of this final sweep
    for n in first + [x for x in OBS[kind] if x not in first]:
        try:
            v = read(f, n)
        except Exception as e:
            v = "raises " + type(e).__name__
        out[n] = v
    return out


def same(a, b, tol):
    if a is None or b is None or isinstance(a, str) or isinstance(b, str):
        return (a is None and b is None) or (isinstance(a, str) and a == b)
    try:
        a_, b_ = np.asarray(a, float), np.asarray(b, float)
    except (TypeError, ValueError):
        return a == b
    if a_.shape != b_.shape:
        return False
    scale = max(1.0, float(np.max(np.abs(b_))) if b_.size else 1.0)
    return bool(np.allclose(a_, b_, rtol=tol, atol=tol * scale, equal_nan=True))


def compare(oa, ob, tol, loose=()):
    for n in oa:
        t = tol
        if n in loose:
            t = loose[n]
        if not same(oa[n], ob[n], t):
            return n
    return None


def sources_ok(kind, ops):
    """the property is stated for configurations with a positive-definite total covariance whenever a source is declared: at least one
    absolute, enabled y / data source must be present after the sequence (unbinned: no sources at all)"""
    alive, order = [], []
    for op in ops:
        if op[0] == "add":
            order.append(("abs-y" if (not op[1] and op[4] in (None, "y")) else "other"))
            alive.append(True)
        elif op[0] == "add_matrix":
            order.append("abs-y"); alive.append(True)
        elif op[0] == "disable":
            if op[1] >= len(alive):
                return False
            alive[op[1]] = False
        elif op[0] == "enable":
            if op[1] >= len(alive):
                return False
            alive[op[1]] = True
        elif op[0] == "data":
            alive, order = [True], ["abs-y"]
    return any(a_ and o_ == "abs-y" for a_, o_ in zip(alive, order))


def op_menu(kind):
    ax = "y" if kind == "xy" else None
    menu = [("constraint", 0), ("matrix_constraint",), ("set", 0, 1.0), ("set", 1, 0.5), ("set_all", 0.8), ("fix", 1, 1.0), ("fix", 0, None), ("release", 1), ("limit", 0), ("unlimit", 0), ("data", 1), ("fit",)]
    if kind != "unbinned":
        menu += [("add", False, "data", 0, ax), ("add", True, "data", 0, ax), ("add", True, "model", 0, ax), ("add", False, "data", 0.5, ax), ("add", False, "model", 0, ax), ("add_matrix",), ("disable", 1), ("enable", 1), ("disable", 0)]
    if kind == "xy":
        menu += [("add", False, "data", 0, "x"), ("add", True, "data", 0, "x")]
    return menu


def valid(kind, ops):
    fixed, limited = set(), set()
    n_src = 0
    for op in ops:
        if op[0] == "release" and op[1] not in fixed:
            return False
        if op[0] == "unlimit" and op[1] not in limited:
            return False
        if op[0] == "fix":
            fixed.add(op[1])
        if op[0] == "release":
            fixed.discard(op[1])
        if op[0] == "limit":
            limited.add(op[1])
        if op[0] == "unlimit":
            limited.discard(op[1])
        if op[0] in ("add", "add_matrix"):
            n_src += 1
        if op[0] in ("disable", "enable") and op[1] >= n_src:
            return False
        if op[0] == "data":
            n_src = 0
        if op[0] in ("disable", "enable") and any(o[0] == "data" for o in ops):
            return False           # (the ids of the sources inside a replacement container are not known to the sequence)
        if op[0] == "fit" and len(fixed) == 2:
            return False
        if op[0] == "fit" and kind != "unbinned" and not sources_ok(kind, ops[:ops.index(op) + 1]) and not kind.startswith("hist"):
            return False
    return True


def gen(tier, seed):
    rng = np.random.RandomState(seed)
    for kind in ("xy", "indexed", "hist", "unbinned", "hist_ga", "hist_np"):
        menu = op_menu(kind)
        base = [("add", False, "data", 0, "y" if kind == "xy" else None)] if kind in ("xy", "indexed", "hist_ga", "hist_np") else []
        seqs = []
        seqs += [(m,) for m in menu] + [(m1, m2) for m1 in menu for m2 in menu]
        if tier == "thorough":
            seqs += [tuple(menu[q] for q in rng.randint(0, len(menu), 3)) for _ in range(600)] + [tuple(menu[q] for q in rng.randint(0, len(menu), 5)) for _ in range(300)]
        else:
            seqs = [s for s in seqs if len(s) == 1 or s[0][0] == "fit" or rng.rand() < 0.3]
            seqs += [tuple(menu[q] for q in rng.randint(0, len(menu), 3)) for _ in range(40)]
        ax_ = "y" if kind == "xy" else None
        core = [(("fix", 1, 1.0), ("release", 1)), (("limit", 0), ("fix", 0, None), ("release", 0)), (("fix", 1, 1.0), ("fit",), ("release", 1), ("fit",)), (("limit", 0), ("unlimit", 0)), (("fit",), ("set_all", 0.8)), (("fit",), ("constraint", 0)), (("fit",), ("data", 1)), (("fit",), ("limit", 0)), (("fit",), ("fix", 0, None)), (("constraint", 0), ("fit",)), (("fit",), ("fit",)), (("data", 1), ("fit",), ("set", 1, 0.5))]
        if kind != "unbinned":
            rel = ("add", True, "model", 0, ax_)
            core += [(("failed_fit",), ("add", False, "model", 0, ax_)), (rel, ("failed_fit",), ("add", False, "model", 0, ax_), ("set_all", 0.8)), (rel, ("failed_fit",), ("set", 0, 1.0)),
                     (rel, ("fit",), ("set_all", 0.8)), (rel, ("fit",), ("add", False, "data", 0.5, ax_)), (rel, ("fit",), ("set", 0, 1.0), ("fit",)), (rel, ("fit",), ("disable", 1)), (("fit",), ("add", False, "data", 0.5, ax_)), (("fit",), ("add_matrix",)),
                     (rel, ("set_all", 0.8), ("fit",), ("constraint", 0))]
        if kind == "xy":
            core += [(("add", False, "data", 0, "x"), ("fit",), ("set_all", 0.8)), (("add", False, "data", 0, "x"), ("add", True, "model", 0, "y"), ("fit",), ("set", 0, 1.0))]
        seqs = core + [s for s in seqs if s not in core]          # the core histories are part of every tier
        for s in seqs:
            ops = base + list(s)
            if not valid(kind, ops):
                continue
            if kind in ("xy", "indexed") and not sources_ok(kind, ops) and not any(o[0] == "data" for o in ops):
                continue
            uses_model_rel = any(o[0] == "add" and o[2] == "model" and o[1] for o in ops)
            for backend in (("iminuit", "scipy") if (tier == "thorough" or any(o[0] == "fit" for o in ops)) else ("iminuit",)):
                for dea in (("nonlinear", "iterative") if uses_model_rel else ("nonlinear",)):
                    for reads in ("all", "cost", "cov", "model"):
                        if tier == "quick" and reads != "all" and rng.rand() < 0.6:
                            continue
                        yield {"kind": kind, "backend": backend, "dea": dea, "ops": [list(o) for o in ops], "reads": reads}


READS = {"cost": ["cost_function_value"], "cov": ["total_cov_mat", "total_error"], "model": ["model", "model_error"]}


def do_reads(f, kind, which):
    names = OBS[kind] + RESULT_OBS + ["result_dict"] if which == "all" else [n for n in READS[which] if n in OBS[kind] or (kind == "xy" and "y_" + n in OBS[kind])]
    for n in names:
        n2 = n if n in OBS[kind] or n == "result_dict" else "y_" + n
        try:
            read(f, n2)
        except Exception:
            pass


def run_history(inp, with_reads):
    kind = inp["kind"]
    f = construct(kind, inp["backend"], 0, inp["dea"])
    ids = []
    if with_reads:
        do_reads(f, kind, inp["reads"])
    for op in inp["ops"]:
        apply(f, kind, tuple(op), ids)
        if with_reads:
            do_reads(f, kind, inp["reads"])
    return f


@R.oracle("reads_are_invisible", gen, obligation="reads_are_invisible (native)")
def reads_invisible(inp):
    kind = inp["kind"]
    try:
        b = run_history(inp, False)
    except Exception as e:
        return None          # the operation sequence itself is rejected (C19's subject): nothing to compare
    try:
        a = run_history(inp, True)
    except Exception as e:
        return {"got": f"{type(e).__name__}: {e}"[:300], "expected": "the sequence is accepted without reads", "witness_class": f"{kind}:raises-only-with-reads:{inp['ops'][-1][0]}"}
    fitted = any(o[0] == "fit" for o in inp["ops"])
    oa, ob = observe(a, kind, fitted), observe(b, kind, fitted)
    tol = 2e-3 if fitted else 1e-9          # identical computations; after a fit the reads in between may move the start of a later minimisation within its tolerance
    bad = compare(oa, ob, tol)
    if bad:
        last_mut = [o[0] for o in inp["ops"]]
        return {"got": oa[bad], "expected": ob[bad], "witness_class": f"{bad}:after-{last_mut[-1]}:{inp['backend']}:{kind}:reads-{inp['reads']}"}
    R.cover(kind)


def canonical(inp):
    """a new fit brought directly to the configuration the operation sequence ends in (no do_fit, no reads)"""
    kind = inp["kind"]
    ops = [tuple(o) for o in inp["ops"]]
    version = 0
    for o in ops:
        if o[0] == "data":
            version = o[1]
    last_data = max([q for q, o in enumerate(ops) if o[0] == "data"], default=-1)
    f = construct(kind, inp["backend"], version, inp["dea"], container=last_data >= 0)
    ids = []
    for o in ops[last_data + 1:]:
        if o[0] in ("add", "add_matrix", "disable", "enable"):
            apply(f, kind, o, ids)
    for o in ops:
        if o[0] in ("constraint", "matrix_constraint"):
            apply(f, kind, o, ids)
    return f


@R.oracle("no_history", gen, obligation="no_history (native)")
def no_history(inp):
    kind = inp["kind"]
    if inp["reads"] not in ("all", "cost"):
        return None
    try:
        a = run_history(inp, inp["reads"] == "all")
    except Exception:
        return None
    c = canonical(inp)
    # parameter state of the history fit, transferred through the public interface
    c.set_all_parameter_values(list(a.parameter_values))
    fixed_now, limited_now = set(), set()          # from the operations themselves, not from the history fit's own book-keeping
    for o in inp["ops"]:
        if o[0] == "fix":
            fixed_now.add(o[1])
        elif o[0] == "release":
            fixed_now.discard(o[1])
        elif o[0] == "limit":
            limited_now.add(o[1])
        elif o[0] == "unlimit":
            limited_now.discard(o[1])
    for q_ in sorted(fixed_now):
        c.fix_parameter(PAR[kind][q_])          # at the value just transferred
    for q_ in sorted(limited_now):
        c.limit_parameter(PAR[kind][q_], ALT[kind][q_] - 3.0, ALT[kind][q_] + 3.0)
    book = {"fixed": sorted(a._fitter.fixed_parameters), "limited": sorted(a._fitter.limited_parameters)}, {"fixed": sorted(c._fitter.fixed_parameters), "limited": sorted(c._fitter.limited_parameters)}
    if book[0] != book[1]:
        return {"got": book[0], "expected": book[1], "witness_class": f"fixed-limited-bookkeeping:history-{'-'.join(o[0] for o in inp['ops'][-3:])}:{inp['backend']}:{kind}"}
    oa, oc = observe(a, kind, False), observe(c, kind, False)
    for n_ in ("did_fit",):
        oa.pop(n_, None); oc.pop(n_, None)
    bad = compare(oa, oc, 1e-7)
    if bad:
        return {"got": oa[bad], "expected": oc[bad], "witness_class": f"{bad}:history-{'-'.join(o[0] for o in inp['ops'][-3:])}:{inp['backend']}:{kind}"}
    R.cover(kind + ":canonical")


sys.exit(R.main())
