"""Native side of C07: the defining equations of the reported uncertainties checked on real minimizer adapters with costs whose
Hessian, profiles and contours are known in closed form (quadratic forms), plus a non-quadratic cost checked against its own definition."""
import itertools, sys, math
from common import parse, Runner, imp

args = parse()
import numpy as np
kafe2 = imp("kafe2")
IM = imp("kafe2.core.minimizers.iminuit_minimizer").MinimizerIMinuit
SC = imp("kafe2.core.minimizers.scipy_optimize_minimizer").MinimizerScipyOptimize
XYFit = kafe2.XYFit
R = Runner("C07", args, scope="2 back ends x quadratic costs with correlated 3x3 curvature (errordef chi2 and nll) x every fixed subset x every free parameter / pair; a non-quadratic cost; XY error band",
           rule="enumeration of (back end, cost, errordef, fixed subset); closed-form references")

A = np.array([[4.0, 1.0, 0.5], [1.0, 3.0, -0.8], [0.5, -0.8, 2.0]])
P0 = np.array([1.0, -2.0, 0.5])
NAMES = ["a", "b", "c"]


def quad(a, b, c):
    d = np.array([a, b, c]) - P0
    return float(d @ A @ d) + 3.0


def make(backend, errordef, fixed, cost=quad):
    cls = IM if backend == "iminuit" else SC
    m = cls(NAMES, [0.3, 0.2, 0.1], [0.1, 0.1, 0.1], cost, errordef=errordef)
    for f in fixed:
        m.set(f, {"a": 0.7, "b": -1.5, "c": 0.9}[f])
        m.fix(f)
    m.minimize()
    return m


A0, P00 = A.copy(), P0.copy()


def setcase(k):
    """case 0: the fixed curvature above; case k > 0 (thorough tier): a seeded random symmetric positive-definite curvature and minimum"""
    global A, P0
    if not k:
        A, P0 = A0.copy(), P00.copy()
        return
    rng = np.random.RandomState(1000 + k)
    M = rng.uniform(-1, 1, (3, 3))
    A = M @ M.T + np.diag(rng.uniform(1.0, 3.0, 3))
    P0 = rng.uniform(-2, 2, 3)


def gen(tier, seed):
    for case in (range(7) if tier == "thorough" else (0,)):
        for backend in ("iminuit", "scipy"):
            for errordef in (1.0, 0.5):
                for fixed in ([], ["a"], ["b"], ["c"], ["a", "c"], ["b", "c"]):
                    yield {"backend": backend, "errordef": errordef, "fixed": fixed, "case": case}


@R.oracle("covariance_is_twice_inverse_hessian", gen, obligation="MinimizerBase.cov_mat")
def cov(inp):
    setcase(inp.get("case", 0))
    m = make(inp["backend"], inp["errordef"], inp["fixed"])
    free = [i for i, n in enumerate(NAMES) if n not in inp["fixed"]]
    C = np.asarray(m.cov_mat)
    H = 2 * A                                       # exact Hessian of the quadratic cost
    exp = np.zeros((3, 3))
    exp[np.ix_(free, free)] = 2 * inp["errordef"] * np.linalg.inv(H[np.ix_(free, free)])
    if not np.allclose(C, exp, rtol=2e-3, atol=1e-6):
        return {"got": C, "expected": exp, "witness_class": "cov!=2*errordef*Hinv" + (":fixed" if inp["fixed"] else "")}
    err = np.asarray(m.parameter_errors)
    if not np.allclose(err, np.sqrt(np.diag(exp)), rtol=2e-3, atol=1e-6):
        return {"got": err, "expected": np.sqrt(np.diag(exp)), "witness_class": "errors!=sqrt(diag(cov))"}
    cor = np.asarray(m.cor_mat)
    d = np.sqrt(np.diag(exp))
    expc = np.zeros((3, 3))
    expc[np.ix_(free, free)] = exp[np.ix_(free, free)] / np.outer(d[free], d[free])
    if not np.allclose(cor, expc, rtol=2e-3, atol=1e-6):
        return {"got": cor, "expected": expc, "witness_class": "cor!=normalised(cov)"}
    cor2 = np.asarray(m.cor_mat)                      # asked twice
    if not np.array_equal(cor, cor2):
        return {"got": cor2, "expected": cor, "witness_class": "cor-not-idempotent"}
    hi = np.asarray(m.hessian_inv)
    if not np.allclose(hi * 2 * inp["errordef"], exp, rtol=2e-3, atol=1e-6):
        return {"got": hi, "expected": exp / (2 * inp["errordef"]), "witness_class": "hessian_inv"}
    h = np.asarray(m.hessian)
    exph = np.zeros((3, 3)); exph[np.ix_(free, free)] = H[np.ix_(free, free)]
    if not np.allclose(h, exph, rtol=5e-3, atol=1e-5):
        return {"got": h, "expected": exph, "witness_class": "hessian"}


@R.oracle("asymmetric_errors_raise_profile_by_one", gen, obligation="_calculate_asymmetric_parameter_errors")
def asym(inp):
    setcase(inp.get("case", 0))
    m = make(inp["backend"], inp["errordef"], inp["fixed"])
    free = [i for i, n in enumerate(NAMES) if n not in inp["fixed"]]
    pv = np.asarray(m.parameter_values).copy()
    fmin = m.function_value
    ae = m.asymmetric_parameter_errors
    if ae is None:
        return {"got": None, "expected": "array", "witness_class": "none"}
    Cfree = np.linalg.inv(A[np.ix_(free, free)])     # profile of a quadratic form: rise (d/sigma)^2 with sigma^2 = (A_free^-1)_ii  [target rise = 1 in cost units]
    for i in range(3):
        if NAMES[i] in inp["fixed"]:
            if not np.allclose(ae[i], 0):
                return {"got": ae[i], "expected": [0, 0], "witness_class": "fixed-not-zero"}
            continue
        s = math.sqrt(Cfree[free.index(i), free.index(i)]) * (1.0 if True else 0)
        exp = np.array([-s, s]) * math.sqrt(1.0)
        if inp["backend"] == "iminuit":
            exp = exp * math.sqrt(inp["errordef"])        # MINOS uses errordef as its cost rise
        if not np.allclose(ae[i], exp, rtol=5e-3, atol=1e-4):
            return {"got": ae[i], "expected": exp, "witness_class": f"asymmetric!=profile-rise:{inp['backend']}" + (":fixed-others" if inp["fixed"] else "")}
    if not np.allclose(m.parameter_values, pv, atol=2e-3) or abs(m.function_value - fmin) > 1e-4:          # (re-minimisation after MINOS: within the minimizer tolerance, C08)
        return {"got": list(m.parameter_values), "expected": list(pv), "witness_class": "moved"}


@R.oracle("profile_and_contour_levels", gen, obligation="profile")
def prof(inp):
    setcase(inp.get("case", 0))
    m = make(inp["backend"], inp["errordef"], inp["fixed"])
    free = [i for i, n in enumerate(NAMES) if n not in inp["fixed"]]
    if len(free) < 2:
        return None
    Cfree = np.linalg.inv(A[np.ix_(free, free)])
    fmin = m.function_value
    pv = np.asarray(m.parameter_values).copy()
    i = free[0]
    xy, _ = m.profile(NAMES[i], size=7, subtract_min=True)
    s2 = Cfree[0, 0]
    exp = (xy[0] - pv[i]) ** 2 / s2
    if not np.allclose(xy[1], exp, rtol=2e-2, atol=2e-3):
        return {"got": xy[1], "expected": exp, "witness_class": f"profile:{inp['backend']}"}
    xy2, _ = m.profile(NAMES[i], size=5, subtract_min=False)
    if not np.allclose(xy2[1], fmin + (xy2[0] - pv[i]) ** 2 / s2, rtol=2e-2, atol=2e-3):
        return {"got": xy2[1], "expected": "f_min + rise", "witness_class": f"profile-no-subtract:{inp['backend']}"}
    for sigma in (1.0, 2.0):
        c = m.contour(NAMES[free[0]], NAMES[free[1]], sigma=sigma)
        if inp["backend"] == "scipy":
            # the scipy adapter returns a heuristic grid of z = sqrt(profiled cost rise / errordef) in units of sigma; cells far from the contour are interpolated,
            # so only the cells the drawn level runs through are compared: they must hold the re-minimised rise
            if inp["errordef"] != 1.0:
                continue          # (the scipy grid is sqrt(cost rise) whatever errordef is; fits always use errordef 1 - the other value is only reachable through minimizer_kwargs)
            if c is None or c.grid_z is None:
                return {"got": None, "expected": "a grid contour", "witness_class": "contour-missing:scipy"}
            gx, gy, gz = np.asarray(c.grid_x), np.asarray(c.grid_y), np.asarray(c.grid_z)
            Xg, Yg = np.meshgrid(gx, gy)
            C2s = Cfree[np.ix_([0, 1], [0, 1])]
            best = None
            for Zx in (gz, gz.T):          # either index order
                d_ = np.stack([Xg - pv[free[0]], Yg - pv[free[1]]], axis=-1)
                z_exact = np.sqrt(np.einsum("...i,ij,...j->...", d_, np.linalg.inv(C2s), d_) / inp["errordef"])
                near_ = np.abs(z_exact - sigma) < 0.12
                if np.sum(near_) < 8:          # the grid has to reach the level it is drawn at
                    err_ = 9.0
                else:
                    err_ = float(np.max(np.abs(Zx[near_] - z_exact[near_])))
                    inside, outside = z_exact < sigma - 0.25, z_exact > sigma + 0.25
                    if np.any(Zx[inside] >= sigma) or np.any(Zx[outside] <= sigma):          # interpolated cells may be rough, but on the right side of the level
                        err_ = max(err_, 5.0)
                best = err_ if best is None else min(best, err_)
            if best > 0.08:
                return {"got": best, "expected": "cells on the drawn level hold sqrt(profiled rise)", "witness_class": "contour-grid:scipy"}
            # ... and the grid covers the WHOLE level curve: the sigma-contour of a quadratic form extends to +- sigma standard deviations along each axis
            for ax_, g_ in ((0, gx), (1, gy)):
                half = sigma * math.sqrt(C2s[ax_, ax_])
                if g_.min() > pv[free[ax_]] - half or g_.max() < pv[free[ax_]] + half:
                    return {"got": [float(g_.min()), float(g_.max())], "expected": [float(pv[free[ax_]] - half), float(pv[free[ax_]] + half)], "witness_class": f"contour-grid-truncated:scipy:sigma-{sigma:g}"}
            continue
        if c is None:
            continue
        C2 = Cfree[np.ix_([0, 1], [0, 1])]
        if c.xy_points is not None:
            pts = np.asarray(c.xy_points)
            pts = pts.T if pts.shape[0] == 2 and pts.shape[1] != 2 else pts
            d = pts - pv[[free[0], free[1]]]
            rise = np.einsum("ki,ij,kj->k", d, np.linalg.inv(C2), d) / inp["errordef"]      # MINUIT's level is errordef x sigma^2 in cost units
            if not np.allclose(rise, sigma ** 2, rtol=8e-2):
                return {"got": [float(rise.min()), float(rise.max())], "expected": sigma ** 2, "witness_class": f"contour-level:{inp['backend']}"}
        else:
            # grid contour: z = profiled cost rise on the grid; the drawn level is sigma^2
            gx, gy, gz = np.asarray(c.grid_x), np.asarray(c.grid_y), np.asarray(c.grid_z)
            X, Y = np.meshgrid(gx, gy, indexing="ij") if gz.shape == (len(gx), len(gy)) else np.meshgrid(gx, gy)
            d = np.stack([X - pv[free[0]], Y - pv[free[1]]], axis=-1)
            exp = np.einsum("...i,ij,...j->...", d, np.linalg.inv(C2), d)
            near = exp < (sigma + 1.5) ** 2
            if not np.allclose(gz[near], exp[near], rtol=5e-2, atol=5e-2):
                return {"got": float(np.max(np.abs(gz[near] - exp[near]))), "expected": "grid of profiled cost rise", "witness_class": f"contour-grid:{inp['backend']}"}


def gen_band(tier, seed):
    for backend in ("iminuit", "scipy"):
        for fixed in ([], ["b"]):
            yield {"backend": backend, "fixed": fixed}


@R.oracle("error_band_is_linear_propagation", gen_band, obligation="XYFit.error_band")
def band(inp):
    x = np.array([0.5, 1.0, 2.0, 3.0, 4.0, 5.5])
    y = np.array([1.1, 1.9, 4.2, 6.8, 11.5, 19.0])
    fit = XYFit([x, y], lambda x, a=1.0, b=0.5, c=0.1: a * x * x + b * x + c, minimizer=inp["backend"])
    fit.add_error("y", 0.4)
    for f in inp["fixed"]:
        fit.fix_parameter(f, 0.4)
    fit.do_fit()
    xs = np.array([0.0, 1.5, 6.0])
    J = np.stack([xs ** 2, xs, np.ones_like(xs)], axis=1)
    C = np.asarray(fit.parameter_cov_mat)
    exp = np.sqrt(np.einsum("ka,ab,kb->k", J, C, J))
    got = np.asarray(fit.error_band(xs))
    if not np.allclose(got, exp, rtol=2e-3, atol=1e-6):
        return {"got": got, "expected": exp, "witness_class": "band" + (":fixed" if inp["fixed"] else "")}
    # the same at whole-number positions given as integers: the band is a float quantity whatever the type of x
    xi = np.array([0, 2, 6])
    Ji = np.stack([xi.astype(float) ** 2, xi.astype(float), np.ones(3)], axis=1)
    gi, ei = np.asarray(fit.error_band(xi), dtype=float), np.sqrt(np.einsum("ka,ab,kb->k", Ji, C, Ji))
    if not np.allclose(gi, ei, rtol=2e-3, atol=1e-6):
        return {"got": gi, "expected": ei, "witness_class": "band:integer-x" + (":fixed" if inp["fixed"] else "")}


def gen_profiler_contours(tier, seed):
    for backend in ("iminuit", "scipy"):
        yield {"backend": backend, "sigmas": [1.0, 2.0]}


@R.oracle("contours_profiler_delivers_the_requested_levels", gen_profiler_contours, obligation="ContoursProfiler.get_contours")
def profiler_contours(inp):
    """ContoursProfiler(fit, contour_sigma_values=(n, ...)).get_contours: the n-sigma contour is the curve on which the cost has risen by n^2 (profiled over the other
    parameters), and it is labelled n sigma / the two-dimensional confidence level 1 - exp(-n^2/2); straight-line fit, so the rise is the exact quadratic form"""
    k2 = imp("kafe2")
    x = np.array([0.0, 1.0, 2.0, 3.0, 4.0, 5.0]); y = np.array([0.9, 3.2, 4.8, 7.1, 9.2, 10.8])
    fit = k2.XYFit([x, y], minimizer=inp["backend"]); fit.add_error("y", 0.4)
    fit.do_fit()
    pv, Ci = np.asarray(fit.parameter_values, float), np.linalg.inv(np.asarray(fit.parameter_cov_mat, float))
    names = list(fit.parameter_names)
    contours = k2.ContoursProfiler(fit, contour_sigma_values=tuple(inp["sigmas"])).get_contours(names[0], names[1])
    if len(contours) != len(inp["sigmas"]):
        return {"got": len(contours), "expected": len(inp["sigmas"]), "witness_class": "profiler:number-of-contours"}
    for n_, (cl_obj, c) in zip(inp["sigmas"], contours):
        tag = f"profiler:{inp['backend']}:sigma-{n_:g}"
        if not np.isclose(c.sigma, n_) or not np.isclose(cl_obj.sigma, n_) or not np.isclose(cl_obj.cl, 1 - np.exp(-0.5 * n_ * n_), rtol=1e-9):
            return {"got": {"contour.sigma": float(c.sigma), "cl": float(cl_obj.cl)}, "expected": {"sigma": n_, "cl": float(1 - np.exp(-0.5 * n_ * n_))}, "witness_class": tag + ":label"}
        if c.xy_points is not None:
            pts = np.asarray(c.xy_points, float)
            pts = pts.T if pts.shape[0] == 2 and pts.shape[1] != 2 else pts
            d = pts - pv
            rise = np.einsum("ki,ij,kj->k", d, Ci, d)
            if not np.allclose(rise, n_ ** 2, rtol=8e-2):
                return {"got": [float(rise.min()), float(rise.max())], "expected": n_ ** 2, "witness_class": tag + ":level"}
        else:
            gx, gy, gz = np.asarray(c.grid_x, float), np.asarray(c.grid_y, float), np.asarray(c.grid_z, float)
            Xg, Yg = np.meshgrid(gx, gy)
            d_ = np.stack([Xg - pv[0], Yg - pv[1]], axis=-1)
            z_exact = np.sqrt(np.einsum("...i,ij,...j->...", d_, Ci, d_))
            ok = False
            for Zx in (gz, gz.T):
                if Zx.shape == z_exact.shape:
                    near_ = np.abs(z_exact - n_) < 0.12
                    ok = ok or (np.sum(near_) >= 8 and float(np.max(np.abs(Zx[near_] - z_exact[near_]))) <= 0.1)
            if not ok:
                return {"got": "grid does not hold sqrt(rise) = n on the requested level", "expected": n_, "witness_class": tag + ":level"}


sys.exit(R.main())
