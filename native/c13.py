"""Native side of C13: per-bin quadrature specification evaluated on the real HistParametricModel / HistFit."""
import itertools, sys, math
from common import parse, Runner, imp

args = parse()
import numpy as np
from scipy import integrate
HPM = imp("kafe2.fit.histogram.model").HistParametricModel
HistContainer = imp("kafe2.fit.histogram.container").HistContainer
HistFit = imp("kafe2.fit.histogram.fit").HistFit
R = Runner("C13", args, scope="edge sets incl. non-uniform/zero-width; polynomial densities of degree 0..4 and exp/normal; 7 evaluation methods; density True/False; parameter changes",
           rule="enumeration of (edges, density family, method) and short parameter-change histories")

EDGES = [[0.0, 1.0, 2.0, 3.0], [0.0, 0.5, 2.0, 2.5, 4.0], [-1.0, 0.0, 0.25, 3.0], [1.0, 1.0, 2.0]]
EXACT = {"rectangle": 1, "midpoint": 1, "trapezoid": 1, "simpson": 3}


def poly(deg):
    def f(x, a=1.0, b=0.5):
        return a * (1.0 + sum((j + 1) * b * x ** j for j in range(1, deg + 1)))
    def F(x, a=1.0, b=0.5):
        return a * (x + sum(b * x ** (j + 1) for j in range(1, deg + 1)))
    return f, F


def spec(method, f, a, b):
    if method in ("rectangle", "midpoint"):
        return (b - a) * f((a + b) / 2)
    if method == "trapezoid":
        return (b - a) / 2 * (f(a) + f(b))
    if method == "simpson":
        return (b - a) / 6 * (f(a) + 4 * f((a + b) / 2) + f(b))
    raise KeyError(method)


def gen_rules(tier, seed):
    grids, pars = list(EDGES), [[1.5, 0.25]]
    if tier == "thorough":          # seeded irregular grids (2 - 12 bins, widths over three orders of magnitude, negative and shifted ranges) and parameter values
        rng = np.random.RandomState(seed + 13)
        for _ in range(10):
            n = int(rng.randint(2, 13))
            w = 10.0 ** rng.uniform(-2, 1, n)
            lo = float(rng.uniform(-5, 5))
            grids.append([round(float(v), 6) for v in lo + np.concatenate([[0.0], np.cumsum(w)])])
        pars += [[float(rng.uniform(0.1, 3)), float(rng.uniform(-0.4, 0.4))] for _ in range(3)]
    for ei, edges in enumerate(grids):
        for deg in range(0, 5):
            for method in ("rectangle", "midpoint", "trapezoid", "simpson", "numerical", "antiderivative", "vectorized"):
                for pr in pars:
                    yield {"edges": edges, "deg": deg, "method": method, "pars": pr}


def close(a, b, tol=1e-9):
    return np.allclose(a, b, rtol=tol, atol=tol)


@R.oracle("bin_rules_and_exactness", gen_rules, obligation="_bin_evaluation_")
def rules(inp):
    edges, deg, method, pars = inp["edges"], inp["deg"], inp["method"], inp["pars"]
    f, F = poly(deg)
    be = F if method == "antiderivative" else np.vectorize(F) if method == "vectorized" else method
    m = HPM(len(edges) - 1, (edges[0], edges[-1]), f, list(pars), bin_edges=list(edges), bin_evaluation=be)
    got = np.asarray(m.data, dtype=float)
    exact = np.array([F(b, *pars) - F(a, *pars) for a, b in zip(edges[:-1], edges[1:])])
    if method in EXACT:
        want = np.array([spec(method, lambda x: f(x, *pars), a, b) for a, b in zip(edges[:-1], edges[1:])])
        if not close(got, want):
            return {"got": got, "expected": want, "witness_class": f"{method}:rule-formula"}
        if deg <= EXACT[method] and not close(got, exact):
            return {"got": got, "expected": exact, "witness_class": f"{method}:not-exact-deg{deg}"}
    else:
        if not close(got, exact, 1e-7):
            return {"got": got, "expected": exact, "witness_class": f"{method}:integral"}
    R.cover(method)


def gen_lazy(tier, seed):
    for method in ("rectangle", "trapezoid", "simpson", "numerical", "antiderivative"):
        for hist in (["set", "read"], ["read", "set", "read"], ["set", "set2", "read"], ["read", "set", "read_err", "read"]):
            yield {"method": method, "history": hist}


@R.oracle("lazy_recompute_current_parameters", gen_lazy, obligation="HistParametricModel.data")
def lazy(inp):
    f, F = poly(2)
    edges = EDGES[1]
    be = F if inp["method"] == "antiderivative" else inp["method"]
    m = HPM(len(edges) - 1, (edges[0], edges[-1]), f, [1.0, 0.5], bin_edges=list(edges), bin_evaluation=be)
    pars = [1.0, 0.5]
    for op in inp["history"]:
        if op == "set":
            pars = [2.0, 0.1]; m.parameters = list(pars)
        elif op == "set2":
            pars = [0.5, 1.5]; m.parameters = list(pars)
        elif op == "read_err":
            m.err
        got = np.asarray(m.data, dtype=float) if op == "read" else None
    ref = HPM(len(edges) - 1, (edges[0], edges[-1]), f, list(pars), bin_edges=list(edges), bin_evaluation=be)
    want = np.asarray(ref.data, dtype=float)
    if not close(got, want):
        return {"got": got, "expected": want, "witness_class": "stale-after-parameter-change"}
    if float(m.underflow) != 0 or float(m.overflow) != 0:
        return {"got": [float(m.underflow), float(m.overflow)], "expected": [0, 0], "witness_class": "underflow/overflow touched"}


def lin_density(x, a=0.3, b=0.2):          # (curved: the rectangle rule and Simpson's rule give different bin contents)
    return a * x * x * x + b


def gen_fit(tier, seed):
    for density in (True, False):
        for extra in ([], [-5.0, 9.0, 9.5]):
            for method in ("simpson", "rectangle"):
                for via in ("constructor", "data-replaced", "model-rebinned", "reloaded") + (("wrapper",) if method == "simpson" else ()):
                    yield {"density": density, "outside": extra, "method": method, "via": via}


@R.oracle("histfit_model_scaling", gen_fit, obligation="HistFit.model")
def fit_model(inp):
    edges = [0.0, 1.0, 2.5, 4.0]
    entries = [0.5, 0.7, 1.5, 3.0, 3.5, 2.0] + list(inp["outside"])
    h = HistContainer(bin_edges=list(edges), fill_data=list(entries))
    f, F = poly(1)
    via = inp.get("via", "constructor")
    if via == "wrapper":                     # the convenience function has to hand the settings on (bin evaluation is not one of its options: default simpson)
        wrapper = imp("kafe2.fit.util.wrapper")
        wrapper.hist_fit(f, list(entries), bin_edges=list(edges), density=inp["density"], report=False, profile=False, save=False)
        fit = wrapper._fit_history[-1]["fit"]
    elif via == "reloaded":                  # a fit written to a file and read back evaluates its bins the same way
        import tempfile, os
        f = lin_density          # (a function whose source text stands on its own: a closure cannot be written to a file)
        f0 = HistFit(h, f, bin_evaluation=inp["method"], density=inp["density"])
        d_ = tempfile.mkdtemp(prefix="c13_")
        p_ = os.path.join(d_, "fit.yml")
        f0.to_file(p_)
        fit = HistFit.from_file(p_)
        os.remove(p_); os.rmdir(d_)
    elif via == "data-replaced":             # same number of bins and same range, other inner edges: the model has to be integrated over the bins of the data now in the fit
        fit = HistFit(HistContainer(bin_edges=[0.0, 2.0, 3.0, 4.0], fill_data=list(entries)), f, bin_evaluation=inp["method"], density=inp["density"])
        _ = fit.model
        fit.data = h
    elif via == "model-rebinned":            # a parametric model whose binning is changed re-evaluates its bin contents
        fit = HistFit(h, f, bin_evaluation=inp["method"], density=inp["density"])
        pm0 = HPM(3, (0.0, 4.0), f, [0.3, 0.2], bin_edges=[0.0, 2.0, 3.0, 4.0], bin_evaluation=inp["method"])
        _ = pm0.data
        pm0.rebin(list(edges))
        ref0 = HPM(3, (0.0, 4.0), f, [0.3, 0.2], bin_edges=list(edges), bin_evaluation=inp["method"])
        if not close(np.asarray(pm0.data, dtype=float), np.asarray(ref0.data, dtype=float)):
            return {"got": np.asarray(pm0.data), "expected": np.asarray(ref0.data), "witness_class": "model-rebin-not-re-evaluated"}
    else:
        fit = HistFit(h, f, bin_evaluation=inp["method"], density=inp["density"])
    fit.set_parameter_values(a=0.3, b=0.2)
    got = np.asarray(fit.model, dtype=float)
    pm = HPM(3, (0.0, 4.0), f, [0.3, 0.2], bin_edges=list(edges), bin_evaluation=inp["method"])
    want = np.asarray(pm.data, dtype=float) * (len(entries) if inp["density"] else 1.0)
    if not close(got, want):
        return {"got": got, "expected": want, "witness_class": ("N-scaling" if inp["density"] else "no-scaling") + ("" if via == "constructor" else ":" + via)}
    # parameter change is picked up
    fit.set_parameter_values(a=0.6, b=0.1)
    pm.parameters = [0.6, 0.1]
    want = np.asarray(pm.data, dtype=float) * (len(entries) if inp["density"] else 1.0)
    if not close(np.asarray(fit.model, dtype=float), want):
        return {"got": np.asarray(fit.model), "expected": want, "witness_class": "stale-after-set_parameter_values"}
    dens = fit.eval_model_function_density(np.array([0.5, 1.0]))
    if not close(dens, [f(0.5, 0.6, 0.1), f(1.0, 0.6, 0.1)]):
        return {"got": dens, "expected": "density at current parameters", "witness_class": "eval_density"}


def gen_sig(tier, seed):
    for order in ("same", "swapped", "renamed", "extra"):
        yield {"order": order}


@R.oracle("antiderivative_must_have_the_density_signature", gen_sig, obligation="HistParametricModel.__init__")
def antiderivative_signature(inp):
    """an antiderivative is called positionally with the density's parameters: one whose parameters come in another order (or have other names) must be
    refused - if it is accepted, the bin contents are integrals of something else"""
    def dens(x, mu=0.3, sigma=1.2):
        return np.exp(-0.5 * ((x - mu) / sigma) ** 2) / np.sqrt(2 * np.pi) / sigma
    from math import erf
    cdf = lambda x, mu, sigma: 0.5 * (1 + erf((x - mu) / (sigma * np.sqrt(2))))
    anti = {"same": lambda x, mu, sigma: cdf(x, mu, sigma), "swapped": lambda x, sigma, mu: cdf(x, mu, sigma), "renamed": lambda x, m, s: cdf(x, m, s), "extra": lambda x, mu, sigma, c: cdf(x, mu, sigma)}[inp["order"]]
    edges = [-2.0, -1.0, 0.0, 0.7, 2.5]
    exact = np.array([cdf(b, 0.3, 1.2) - cdf(a, 0.3, 1.2) for a, b in zip(edges[:-1], edges[1:])])
    try:
        m = HPM(4, (edges[0], edges[-1]), dens, [0.3, 1.2], bin_edges=edges, bin_evaluation=np.vectorize(anti))
        got = np.asarray(m.data, dtype=float)
    except (ValueError, TypeError):
        if inp["order"] == "same":
            return {"got": "rejected", "expected": "accepted", "witness_class": "signature:same-order-rejected"}
        return None
    if not close(got, exact, 1e-9):
        return {"got": got, "expected": exact, "witness_class": "signature:" + inp["order"] + "-accepted-and-wrong"}


def gen_scalar(tier, seed):
    yield {"c": 0.25}


@R.oracle("scalar_density_broadcast", gen_scalar, obligation="eval_model_function_density")
def scalar_density(inp):
    m = HPM(3, (0.0, 3.0), lambda x, c=0.25: c, [inp["c"]], bin_evaluation="simpson")
    if not close(np.asarray(m.data, dtype=float), [inp["c"]] * 3):
        return {"got": m.data, "expected": [inp["c"]] * 3, "witness_class": "broadcast"}


sys.exit(R.main())
