"""Native side of C01: cost_function_value of real fits against an independent implementation of the documented formulas,
for every fit type x every accepted built-in cost identifier x uncertainty-source mixes x constraints x parameter points;
plus the typed wiring table of cost arguments (exhaustive enumeration of a finite axis)."""
import itertools, sys, math
from common import parse, Runner, imp

args = parse()
import numpy as np
from scipy.stats import norm, poisson
kafe2 = imp("kafe2")
XYFit, IndexedFit, HistFit, UnbinnedFit, HistContainer = kafe2.XYFit, kafe2.IndexedFit, kafe2.HistFit, kafe2.UnbinnedFit, kafe2.HistContainer
XYContainer, IndexedContainer = kafe2.XYContainer, kafe2.IndexedContainer
nxmod = imp("kafe2.core.fitters.nexus")
R = Runner("C01", args, scope="xy / indexed / histogram / unbinned fits x all accepted cost identifiers x source mixes (simple / matrix, absolute / relative, data / model reference, x / y, enabled / disabled, model-referenced source first or only) x 0-2 constraints x 2 parameter points",
           rule="enumeration; each case compares fit.cost_function_value with the documented formula evaluated independently")

X = np.array([1.0, 2.0, 3.0, 4.5])
Y = np.array([1.8, 2.3, 3.9, 4.4])


def lin(x, a=1.2, b=0.3):
    return a * x + b


def quad(x, a=0.3, b=0.2):
    return a * x * x + b


def idx_model(a=1.2, b=0.3):
    return a * X + b


def dens(x, mu=0.2, sigma=1.1):
    return np.exp(-0.5 * ((x - mu) / sigma) ** 2) / np.sqrt(2 * np.pi * sigma ** 2)


COV = np.array([[0.05, 0.01, 0.0, 0.0], [0.01, 0.08, 0.02, 0.0], [0.0, 0.02, 0.06, 0.0], [0.0, 0.0, 0.0, 0.04]])
COR = COV / np.sqrt(np.outer(np.diag(COV), np.diag(COV)))
# (name, axis, reference, kind, kwargs)
SOURCES = {
    "y_abs": ("y", "data", "simple", dict(err_val=0.2)),
    "y_abs_cor": ("y", "data", "simple", dict(err_val=[0.1, 0.2, 0.15, 0.3], correlation=0.4)),
    "y_rel_data": ("y", "data", "simple", dict(err_val=0.05, relative=True)),
    "y_rel_model": ("y", "model", "simple", dict(err_val=0.06, relative=True)),
    "y_abs_model": ("y", "model", "simple", dict(err_val=0.15)),
    "y_rel_model_cor": ("y", "model", "simple", dict(err_val=0.04, relative=True, correlation=0.5)),
    "y_cov": ("y", "data", "matrix", dict(err_matrix=COV, matrix_type="cov")),
    "y_cor_rel": ("y", "data", "matrix", dict(err_matrix=COR, matrix_type="cor", err_val=0.05, relative=True)),
    "x_abs": ("x", "data", "simple", dict(err_val=0.1)),
    "x_rel_data": ("x", "data", "simple", dict(err_val=0.03, relative=True)),
    "x_abs_model": ("x", "model", "simple", dict(err_val=0.08)),
}
MIXES = [[], ["y_abs"], ["y_rel_model"], ["y_abs_model"], ["y_abs_cor", "y_rel_data"], ["y_rel_model", "y_abs"], ["y_cov"], ["y_cor_rel", "y_abs"], ["y_rel_model_cor", "y_abs_cor"],
         ["x_abs", "y_abs"], ["x_rel_data", "y_abs_cor"], ["x_abs_model", "y_abs"], ["x_abs"], ["y_abs", "y_rel_data", "y_rel_model"]]


def source_cov(name, dvals, mvals):
    axis, ref, kind, kw = SOURCES[name]
    v = np.asarray(dvals if ref == "data" else mvals, dtype=float)
    n = len(v)
    if kind == "simple":
        e = np.ones(n) * np.asarray(kw["err_val"], dtype=float)
        sig = e * v if kw.get("relative") else e
        rho = np.full((n, n), kw.get("correlation", 0.0)); np.fill_diagonal(rho, 1.0)
        return np.outer(sig, sig) * rho
    m = np.asarray(kw["err_matrix"], dtype=float)
    if kw["matrix_type"] == "cor":
        e = np.ones(n) * np.asarray(kw["err_val"], dtype=float)
        m = np.outer(e, e) * m
    return m * np.outer(v, v) if kw.get("relative") else m


def constraint_cost(cons, pvals):
    c = 0.0
    for kind, spec in cons:
        if kind == "s":
            i, v, u = spec
            c += ((pvals[i] - v) / u) ** 2
        elif kind == "sr":                      # relative: the declared number is a fraction of the constraint value
            i, v, u = spec
            c += ((pvals[i] - v) / (u * abs(v))) ** 2
        else:
            idx, vals, cov = spec
            r = np.asarray(pvals)[idx] - np.asarray(vals)
            c += float(r @ np.linalg.solve(np.asarray(cov), r))
    return c


CONS = {"relative": [("sr", (0, 2.5, 0.04)), ("sr", (1, -0.4, 0.5))], "none": [], "simple": [("s", (0, 1.0, 0.3))], "matrix": [("m", ([0, 1], [1.0, 0.5], [[0.09, 0.01], [0.01, 0.04]]))], "both": [("s", (1, 0.2, 0.5)), ("m", ([0, 1], [1.0, 0.5], [[0.09, 0.01], [0.01, 0.04]]))]}


def add_cons(fit, cons):
    names = fit.parameter_names
    for kind, spec in cons:
        if kind == "s":
            fit.add_parameter_constraint(names[spec[0]], spec[1], spec[2])
        elif kind == "sr":
            fit.add_parameter_constraint(names[spec[0]], spec[1], spec[2], relative=True)
        else:
            fit.add_matrix_parameter_constraint([names[q] for q in spec[0]], spec[1], spec[2])


def chi2_formula(cf_id, d, m, V, sig, ccost):
    r = d - m
    base = cf_id.replace("chisquared", "chi2").replace("chi_squared", "chi2").replace("chi_2", "chi2")
    if base == "chi2_no_errors":
        return float(r @ r) + ccost
    if "pointwise" in base:
        return float(np.sum((r / sig) ** 2) + 2 * np.sum(np.log(sig))) + ccost
    return float(r @ np.linalg.solve(V, r) + np.log(np.linalg.det(V))) + ccost


def gen_xy(tier, seed):
    for cf in ("chi2", "chi2_fast", "chi2_covariance", "chi2_covariance_fast", "chi2_pointwise", "chi2_no_errors", "chisquared", "chi_2", "chi_squared_fast", "chi2_pointwise_errors"):
        for mix in MIXES:
            for cons in (("none", "simple") if cf != "chi2" else CONS):
                for order in ("fwd", "rev"):
                    for disable in (None, 0):
                        if (order == "rev" and len(mix) < 2) or (disable is not None and not mix):
                            continue
                        if cf not in ("chi2", "chi2_fast") and (order == "rev" or disable is not None or len(mix) > 2):
                            continue
                        yield {"cost": cf, "mix": mix, "constraints": cons, "order": order, "disable": disable, "model": "quad" if any(s.startswith("x") for s in mix) else "lin"}


@R.oracle("xy_cost_is_documented_formula", gen_xy, obligation="")
def xy(inp):
    f_ = quad if inp["model"] == "quad" else lin
    fit = XYFit([X, Y], f_, cost_function=inp["cost"])
    mix = list(inp["mix"]) if inp["order"] == "fwd" else list(reversed(inp["mix"]))
    names = {}
    for s in mix:
        axis, ref, kind, kw = SOURCES[s]
        if kind == "simple":
            names[s] = fit.add_error(axis, name=s, reference=ref, **kw)
        else:
            names[s] = fit.add_matrix_error(axis, name=s, reference=ref, **kw)
    enabled = list(mix)
    if inp["disable"] is not None:
        fit.disable_error(mix[inp["disable"]])
        enabled.remove(mix[inp["disable"]])
    add_cons(fit, CONS[inp["constraints"]])
    for pt in ((1.1, 0.4), (0.8, -0.2)):
        fit.set_all_parameter_values(list(pt))
        got = float(fit.cost_function_value)
        m = f_(X, *pt)
        Vy = sum((source_cov(s, Y, m) for s in enabled if SOURCES[s][0] == "y"), np.zeros((4, 4)))
        Vx = sum((source_cov(s, X, X) for s in enabled if SOURCES[s][0] == "x"), np.zeros((4, 4)))
        h = 0.01 * np.sqrt(np.diag(Vx))
        h = np.where(h == 0, 1e-2 * (np.abs(X) + 1.0 / (1.0 + np.abs(X))), h)
        slope = 0.5 * (f_(X + h, *pt) - f_(X - h, *pt)) / h
        V = Vy + Vx * np.outer(slope, slope)
        cf = inp["cost"]
        if not enabled and cf == "chi2":
            cf_eff = "chi2_no_errors" if not mix else cf       # implicit: created with the literal "chi2", no sources, none added -> no-error chi2
        else:
            cf_eff = cf
        if (not np.any(V) or np.linalg.matrix_rank(V) < 4) and cf_eff != "chi2_no_errors":
            continue                                            # all sources disabled: documented singular-matrix fallbacks, excluded by the property
        ccost = constraint_cost(CONS[inp["constraints"]], pt)
        sig = np.sqrt(np.diag(V)) if np.any(V) else None
        exp = chi2_formula(cf_eff, Y, m, V, sig, ccost)
        if not math.isclose(got, exp, rel_tol=1e-7, abs_tol=1e-9):
            what = "implicit-switch" if cf_eff != cf or (mix and all(SOURCES[s][1] == "model" for s in mix)) else "formula"
            return {"got": got, "expected": exp, "witness_class": f"xy:{inp['cost']}:{what}:" + ("x" if np.any(Vx) else "y") + (":disabled" if inp["disable"] is not None else "")}
    R.cover(inp["cost"])


def gen_indexed(tier, seed):
    ids = ["chi2", "chi2_covariance", "chi2_pointwise", "chi2_no_errors", "chi2_fast", "nll-gaussian", "nllr-gaussian", "nll-poisson", "nllr-poisson", "gauss_approximation", "gauss_approximation_covariance_fast", "gauss_approximation_pointwise"]
    for cf in ids:
        for mix in ([], ["y_abs"], ["y_rel_model"], ["y_abs_cor", "y_rel_data"], ["y_cov", "y_abs_model"]):
            for cons in ("none", "both", "relative"):
                if cons == "relative" and mix not in ([], ["y_abs"]):
                    continue
                yield {"cost": cf, "mix": mix, "constraints": cons}


def generic_formula(cf, d, m, V, ccost):
    sig = np.sqrt(np.diag(V)) if np.any(V) else None
    if cf.startswith("chi"):
        return chi2_formula(cf, d, m, V, sig, ccost)
    if cf == "nll-gaussian":
        return float(-2 * np.sum(norm.logpdf(d, loc=m, scale=sig))) + ccost
    if cf == "nllr-gaussian":
        return float(-2 * (np.sum(norm.logpdf(d, loc=m, scale=sig)) - np.sum(norm.logpdf(d, loc=d, scale=sig)))) + ccost
    if cf == "nll-poisson":
        return float(-2 * np.sum(poisson.logpmf(d, mu=m))) + ccost
    if cf == "nllr-poisson":
        return float(-2 * (np.sum(poisson.logpmf(d, mu=m)) - np.sum(poisson.logpmf(d, mu=d)))) + ccost
    if cf.startswith("gauss_approximation") and "pointwise" in cf:
        var = m + (sig ** 2 if sig is not None else 0)
        return float(np.sum((m - d) ** 2 / var) + np.sum(np.log(var))) + ccost
    if cf.startswith("gauss_approximation"):
        W = V + np.diag(m)
        return float((m - d) @ np.linalg.solve(W, m - d) + np.log(np.linalg.det(W))) + ccost
    raise KeyError(cf)


@R.oracle("indexed_cost_is_documented_formula", gen_indexed, obligation="")
def indexed(inp):
    cf = inp["cost"]
    d = np.array([2.0, 3.0, 4.0, 6.0]) if ("poisson" in cf or "gauss_approx" in cf) else Y
    needs_err = cf in ("nll-gaussian", "nllr-gaussian", "chi2_covariance", "chi2_pointwise", "chi2_fast")
    if needs_err and not inp["mix"]:
        return None
    fit = IndexedFit(d, idx_model, cost_function=cf)
    for s in inp["mix"]:
        axis, ref, kind, kw = SOURCES[s]
        (fit.add_error if kind == "simple" else fit.add_matrix_error)(name=s, reference=ref, **kw)
    add_cons(fit, CONS[inp["constraints"]])
    for pt in ((1.1, 0.4), (0.9, 0.6)):
        fit.set_all_parameter_values(list(pt))
        m = idx_model(*pt)
        V = sum((source_cov(s, d, m) for s in inp["mix"]), np.zeros((4, 4)))
        cf_eff = "chi2_no_errors" if (cf == "chi2" and not inp["mix"]) else cf
        exp = generic_formula(cf_eff, d, m, V, constraint_cost(CONS[inp["constraints"]], pt))
        got = float(fit.cost_function_value)
        if not math.isclose(got, exp, rel_tol=1e-7, abs_tol=1e-9):
            return {"got": got, "expected": exp, "witness_class": f"indexed:{cf}:" + ("model-ref" if any(SOURCES[s][1] == "model" for s in inp["mix"]) else "formula")}
    R.cover("indexed:" + cf)


def gen_after_fit(tier, seed):
    for cf in ("chi2", "chi2_covariance", "chi2_fast", "nll-gaussian", "nll-poisson", "gauss_approximation", "gauss_approximation_covariance_fast", "gauss_approximation_pointwise"):
        for mix in (["y_abs"], ["y_abs_cor", "y_rel_data"], ["y_rel_model"]):
            for cons in ("none", "both"):
                yield {"cost": cf, "mix": mix, "constraints": cons}


@R.oracle("cost_reported_after_do_fit_is_documented_formula", gen_after_fit, obligation="pointwise_version")
def after_fit(inp):
    """do_fit may switch to an optimised (pointwise) variant of the cost function: what it minimises and reports must still be the documented cost"""
    cf = inp["cost"]
    d = np.array([2.0, 3.0, 4.0, 6.0]) if ("poisson" in cf or "gauss_approx" in cf) else Y
    fit = IndexedFit(d, idx_model, cost_function=cf)
    for s in inp["mix"]:
        axis, ref, kind, kw = SOURCES[s]
        (fit.add_error if kind == "simple" else fit.add_matrix_error)(name=s, reference=ref, **kw)
    add_cons(fit, CONS[inp["constraints"]])
    fit.do_fit()
    pt = tuple(float(v) for v in fit.parameter_values)
    m = idx_model(*pt)
    V = sum((source_cov(s, d, m) for s in inp["mix"]), np.zeros((4, 4)))
    exp = generic_formula(cf, d, m, V, constraint_cost(CONS[inp["constraints"]], pt))
    got = float(fit.cost_function_value)
    if not math.isclose(got, exp, rel_tol=1e-6, abs_tol=1e-8):
        return {"got": got, "expected": exp, "witness_class": f"after-fit:{cf}:" + ("diagonal" if inp["mix"] in (["y_abs"], ["y_rel_model"]) else "correlated")}
    # and it is a minimum of that documented cost: no nearby point is lower
    for dp in ((1e-3, 0), (-1e-3, 0), (0, 1e-3), (0, -1e-3)):
        q = (pt[0] + dp[0], pt[1] + dp[1])
        mq = idx_model(*q)
        Vq = sum((source_cov(s, d, mq) for s in inp["mix"]), np.zeros((4, 4)))
        if generic_formula(cf, d, mq, Vq, constraint_cost(CONS[inp["constraints"]], q)) < exp - 1e-5:
            return {"got": "a point 1e-3 away has a lower documented cost", "expected": "minimum of the documented cost", "witness_class": f"after-fit:{cf}:not-a-minimum"}


def gen_units(tier, seed):
    for scale in (1e-5, 1e-3, 1.0, 1e4):
        for cf in ("chi2", "nll-gaussian"):
            for rho in (0.4, 0.05):
                yield {"scale": scale, "cost": cf, "rho": rho}


@R.oracle("correlations_count_in_every_unit", gen_units, obligation="is_diagonal")
def units_oracle(inp):
    """data in small (or large) units: a declared correlation is part of the cost before and after do_fit whatever the magnitude of the covariance entries
    (the choice of the pointwise cost variant must rest on an exact test for a diagonal matrix)"""
    sc, rho = inp["scale"], inp["rho"]
    d = Y * sc
    fit = IndexedFit(d, lambda a=1.2, b=0.3: (a * X + b) * sc, cost_function=inp["cost"])
    sizes = np.array([0.1, 0.2, 0.15, 0.3]) * sc
    fit.add_error(sizes, correlation=rho)
    R_ = np.full((4, 4), rho); np.fill_diagonal(R_, 1.0)
    V = np.outer(sizes, sizes) * R_
    for stage in ("before", "after"):
        if stage == "after":
            fit.do_fit()
        pt = tuple(float(v) for v in fit.parameter_values)
        m = (pt[0] * X + pt[1]) * sc
        exp = generic_formula(inp["cost"], d, m, V, 0.0)
        got = float(fit.cost_function_value)
        if not math.isclose(got, exp, rel_tol=1e-6, abs_tol=1e-7):
            return {"got": got, "expected": exp, "witness_class": f"units:{stage}-fit:scale-{sc:g}"}
        g = fit.goodness_of_fit
        r = d - m
        if g is not None and inp["cost"] == "chi2" and not math.isclose(float(g), float(r @ np.linalg.solve(V, r)), rel_tol=1e-6, abs_tol=1e-7):
            return {"got": float(g), "expected": float(r @ np.linalg.solve(V, r)), "witness_class": f"units:gof:{stage}-fit:scale-{sc:g}"}


def gen_xy_after_fit(tier, seed):
    for cf in ("chi2", "nll-gaussian"):
        for start in ((0.0, 1.0), (1.2, 0.3)):              # slope zero at the starting values / generic start
            for xsrc in ("x_cor", "x_plain"):
                yield {"cost": cf, "start": list(start), "x_source": xsrc}


@R.oracle("xy_cost_after_do_fit_counts_x_correlations_whatever_the_start", gen_xy_after_fit, obligation="pointwise_version")
def xy_after_fit(inp):
    """an x source is projected with the model slope: at a start with slope 0 the projected matrix vanishes, which says nothing about the matrix the fit ends with"""
    a0, b0 = inp["start"]
    xs, ys = np.array([1.0, 2.0, 3.0, 4.0, 5.0]), np.array([2.0, 4.3, 5.8, 8.4, 9.7])

    def f(x, a=a0, b=b0):
        return a * x + b
    fit = XYFit([xs, ys], f, cost_function=inp["cost"])
    fit.add_error("y", 0.3)
    rho = 0.8 if inp["x_source"] == "x_cor" else 0.0
    fit.add_error("x", 0.2, correlation=rho)
    fit.do_fit()
    a, b = (float(v) for v in fit.parameter_values)
    Rx = np.full((5, 5), rho); np.fill_diagonal(Rx, 1.0)
    V = 0.09 * np.eye(5) + 0.04 * Rx * a * a
    exp = generic_formula(inp["cost"], ys, f(xs, a, b), V, 0.0)
    got = float(fit.cost_function_value)
    if not math.isclose(got, exp, rel_tol=1e-6, abs_tol=1e-8):
        return {"got": got, "expected": exp, "witness_class": f"xy-after-fit:{inp['cost']}:{inp['x_source']}:start-slope-{a0:g}"}
    for dp in ((1e-3, 0), (-1e-3, 0), (0, 1e-3), (0, -1e-3)):
        q = (a + dp[0], b + dp[1])
        Vq = 0.09 * np.eye(5) + 0.04 * Rx * q[0] * q[0]
        if generic_formula(inp["cost"], ys, f(xs, *q), Vq, 0.0) < exp - 1e-5:
            return {"got": "a point 1e-3 away has a lower documented cost", "expected": "minimum of the documented cost", "witness_class": f"xy-after-fit:{inp['cost']}:{inp['x_source']}:not-a-minimum:start-slope-{a0:g}"}


def gen_late_container(tier, seed):
    for kind in ("xy", "indexed"):
        for with_sources in (True, False):
            yield {"kind": kind, "container_declares_uncertainties": with_sources}


@R.oracle("sources_of_a_container_assigned_later_count", gen_late_container, obligation="")
def late_container(inp):
    """a fit created without uncertainties (implicit no-errors chi2) that is then given a container declaring sources: the sources are part of the cost"""
    if inp["kind"] == "xy":
        fit = XYFit([X, Y], lin)
        c = XYContainer(X, Y)
        if inp["container_declares_uncertainties"]:
            c.add_error("y", 0.5)
        m = lambda pt: lin(X, *pt)
    else:
        fit = IndexedFit(Y, idx_model)
        c = IndexedContainer(Y)
        if inp["container_declares_uncertainties"]:
            c.add_error(0.5)
        m = lambda pt: idx_model(*pt)
    fit.data = c
    pt = (1.1, 0.4)
    fit.set_all_parameter_values(pt)
    r = Y - m(pt)
    exp = float(np.sum((r / 0.5) ** 2) + 2 * len(Y) * np.log(0.5)) if inp["container_declares_uncertainties"] else float(np.sum(r ** 2))
    got = float(fit.cost_function_value)
    if not math.isclose(got, exp, rel_tol=1e-9, abs_tol=1e-10):
        return {"got": got, "expected": exp, "witness_class": f"late-container:{inp['kind']}:{'declared-sources-ignored' if inp['container_declares_uncertainties'] else 'no-sources'}"}


def gen_mixed_sign(tier, seed):
    for cf in ("chi2", "chi2_covariance", "nll-gaussian"):
        for ref in ("data", "model"):
            for rho in (1.0, 0.6, 0.0):
                yield {"cost": cf, "reference": ref, "correlation": rho}


@R.oracle("relative_sources_with_values_of_both_signs", gen_mixed_sign, obligation="SimpleGaussianError._calculate_cov_mat")
def mixed_sign(inp):
    """a source relative to data / model values of BOTH signs: sigma_i = relative size x value_i keeps the sign, so correlated points on opposite sides of zero are anti-correlated in absolute terms"""
    d = np.array([1.8, -2.3, 3.9, -4.4])
    model = lambda a=1.2, b=0.3: a * np.array([1.0, -2.0, 3.0, -4.0]) + b
    fit = IndexedFit(d, model, cost_function=inp["cost"])
    fit.add_error(0.3)
    fit.add_error(0.1, relative=True, correlation=inp["correlation"], reference=inp["reference"])
    for pt in ((1.1, 0.4), (0.9, -0.2)):
        fit.set_all_parameter_values(pt)
        m = model(*pt)
        sig = 0.1 * (d if inp["reference"] == "data" else m)
        rho = np.full((4, 4), inp["correlation"]); np.fill_diagonal(rho, 1.0)
        V = 0.09 * np.eye(4) + np.outer(sig, sig) * rho
        exp, got = generic_formula(inp["cost"], d, m, V, 0.0), float(fit.cost_function_value)
        if not math.isclose(got, exp, rel_tol=1e-9, abs_tol=1e-10):
            return {"got": got, "expected": exp, "witness_class": f"mixed-sign:{inp['cost']}:relative-to-{inp['reference']}:rho-{inp['correlation']:g}"}


def gen_hist(tier, seed):
    for cf in ("nll-poisson", "nllr-poisson", "chi2", "gauss_approximation", "gauss_approximation_pointwise", "nll-gaussian"):
        for mix in ([], ["y_abs"], ["y_rel_model"], ["y_abs_cor"]):
            for density in (True, False):
                yield {"cost": cf, "mix": mix, "density": density}


@R.oracle("hist_cost_is_documented_formula", gen_hist, obligation="")
def hist(inp):
    cf = inp["cost"]
    if cf == "nll-gaussian" and not inp["mix"]:
        return None
    entries = list(np.linspace(-1.8, 1.9, 37)) + [2.5, -3.0]
    h = HistContainer(4, (-2, 2), fill_data=entries)
    fit = HistFit(h, dens, cost_function=cf, density=inp["density"], bin_evaluation="rectangle")
    for s in inp["mix"]:
        axis, ref, kind, kw = SOURCES[s]
        fit.add_error(name=s, reference=ref, **kw)
    for pt in ((0.2, 1.1), (-0.1, 0.9)):
        fit.set_all_parameter_values(list(pt))
        edges = np.linspace(-2, 2, 5)
        m = (edges[1:] - edges[:-1]) * dens(0.5 * (edges[1:] + edges[:-1]), *pt) * (len(entries) if inp["density"] else 1.0)
        d = np.asarray(h.data, dtype=float)
        V = sum((source_cov(s, d, m) for s in inp["mix"]), np.zeros((4, 4)))
        cf_eff = "chi2_no_errors" if (cf == "chi2" and not inp["mix"]) else cf
        if not inp["density"] and "poisson" in cf:
            pass
        exp = generic_formula(cf_eff, d, m, V, 0.0)
        got = float(fit.cost_function_value)
        if not math.isclose(got, exp, rel_tol=1e-7, abs_tol=1e-9):
            relmodel = any(SOURCES[s][1] == "model" and SOURCES[s][3].get("relative") for s in inp["mix"])
            return {"got": got, "expected": exp, "witness_class": f"hist:{cf}:" + ("density-model-relative" if (inp["density"] and relmodel) else "N-scaling" if inp["density"] else "formula")}
    R.cover("hist:" + cf)


def gen_unbinned(tier, seed):
    for cons in ("none", "simple"):
        yield {"constraints": cons}


@R.oracle("unbinned_cost_is_documented_formula", gen_unbinned, obligation="")
def unbinned(inp):
    data = np.linspace(-2.0, 2.5, 25)
    fit = UnbinnedFit(data, dens)
    add_cons(fit, CONS[inp["constraints"]])
    for pt in ((0.2, 1.1), (-0.3, 1.4)):
        fit.set_all_parameter_values(list(pt))
        exp = float(-2 * np.sum(np.log(dens(data, *pt)))) + constraint_cost(CONS[inp["constraints"]], pt)
        got = float(fit.cost_function_value)
        if not math.isclose(got, exp, rel_tol=1e-9):
            return {"got": got, "expected": exp, "witness_class": "unbinned"}


def gen_wiring(tier, seed):
    for kind in ("xy", "indexed", "hist", "unbinned"):
        yield {"kind": kind}


EXPECTED_TYPES = {"data": "vector", "model": "vector", "y_data": "vector", "y_model": "vector", "total_error": "vector", "total_cov_mat": "matrix", "total_cov_mat_qr": "qr-pair", "total_cov_mat_cholesky": "matrix",
                  "parameter_values": "vector", "parameter_constraints": "list", "total_cov_mat_log_determinant": "scalar", "total_error_squared_log_sum": "scalar", "x_data": "vector"}
HANDLE_NEEDS = {"chi2_covariance": "qr-pair", "chi2_covariance_fast": "matrix", "chi2_pointwise_errors": "vector", "gaussian_approximation_covariance": "matrix", "gaussian_approximation_pointwise_errors": "vector",
                "nll_gaussian": "vector", "nllr_gaussian": "vector"}


def vtype(v):
    if isinstance(v, tuple) and len(v) == 2 and all(isinstance(q, np.ndarray) and q.ndim == 2 for q in v):
        return "qr-pair"
    if isinstance(v, (list,)):
        return "list"
    a = np.asarray(v)
    return {0: "scalar", 1: "vector", 2: "matrix"}.get(a.ndim, "other")


@R.oracle("cost_argument_wiring_table", gen_wiring, obligation="_init_cost_function")
def wiring(inp):
    kind = inp["kind"]
    base = {"xy": lambda cf: XYFit([X, Y], lin, cost_function=cf), "indexed": lambda cf: IndexedFit(np.array([2.0, 3.0, 4.0, 6.0]), idx_model, cost_function=cf),
            "hist": lambda cf: HistFit(HistContainer(4, (-2, 2), fill_data=list(np.linspace(-1.8, 1.9, 37))), dens, cost_function=cf), "unbinned": lambda cf: UnbinnedFit(np.linspace(-2, 2, 11), dens, cost_function=cf)}[kind]
    cls = {"xy": XYFit, "indexed": IndexedFit, "hist": HistFit, "unbinned": UnbinnedFit}[kind]
    for cf in sorted(cls._STRING_TO_COST_FUNCTION):
        try:
            fit = base(cf)
        except Exception as e:
            if kind == "xy" or "poisson" in cf or "gaussian" in cf and kind == "unbinned":
                continue
            return {"got": f"{cf}: constructor raised {e!r}"[:200], "expected": "constructible", "witness_class": f"{kind}:ctor:{cf}"}
        if kind != "unbinned":
            (fit.add_error("y", 0.3, correlation=0.2) if kind == "xy" else fit.add_error(0.3, correlation=0.2))
        cfo = fit._cost_function
        for pos, an in enumerate(cfo.arg_names):
            node = fit._nexus.get(an)
            if node is None or isinstance(node, nxmod.Empty):
                return {"got": f"{cf}: argument '{an}' has no node", "expected": "bound", "witness_class": f"{kind}:unbound:{an}"}
            v = node.value
            exp_t = EXPECTED_TYPES.get(an)
            if exp_t and v is not None and vtype(v) != exp_t:
                return {"got": f"{cf}: node '{an}' delivers {vtype(v)}", "expected": exp_t, "witness_class": f"{kind}:type:{an}"}
            need = HANDLE_NEEDS.get(cfo.func.__name__)
            if need and pos == 2 and v is not None and vtype(v) != need:
                return {"got": f"{cf}: handle {cfo.func.__name__} gets a {vtype(v)} from node '{an}'", "expected": need, "witness_class": f"{kind}:handle-type:{cfo.func.__name__}"}
        try:
            c = float(fit.cost_function_value)
            if not np.isfinite(c):
                return {"got": f"{cf}: cost {c}", "expected": "finite", "witness_class": f"{kind}:nonfinite:{cf}"}
        except Exception as e:
            return {"got": f"{cf}: cost raised {e!r}"[:200], "expected": "a number", "witness_class": f"{kind}:raises:{cf}"}
        # every graph node below the cost that reads container uncertainties is invalidated on an error change
        basic = set(fit._BASIC_ERROR_NAMES)
        seen, todo = set(), [fit._nexus.get("cost")]
        while todo:
            nd = todo.pop()
            if id(nd) in seen:
                continue
            seen.add(id(nd))
            todo.extend(nd.get_children())
            nm = nd.name
            if isinstance(nd, nxmod.Function) and not nd.parameters and any(nm.endswith(sfx) for sfx in ("data_error", "model_error", "data_cov_mat", "model_cov_mat")) and nm not in basic:
                return {"got": f"{cf}: node '{nm}' feeds the cost but is not in _BASIC_ERROR_NAMES", "expected": "marked on error change", "witness_class": f"{kind}:not-invalidated:{nm}"}


sys.exit(R.main())
