"""Native side of C18 (bounded): real plots are drawn with the Agg back end and the matplotlib artists are compared with the fit's numbers."""
import io, itertools, os, re, sys, warnings
from common import parse, Runner, imp

args = parse()
os.environ["MPLBACKEND"] = "Agg"
import numpy as np
warnings.simplefilter("ignore")
import matplotlib
matplotlib.use("Agg")
import matplotlib.pyplot as plt
kafe2 = imp("kafe2")
Plot = kafe2.Plot
XYFit, IndexedFit, HistFit, UnbinnedFit, MultiFit, HistContainer = kafe2.XYFit, kafe2.IndexedFit, kafe2.HistFit, kafe2.UnbinnedFit, kafe2.MultiFit, kafe2.HistContainer
R = Runner("C18", args, scope="xy / indexed / histogram / unbinned fits x uncertainty configurations (y only, x and y, model-relative, Poisson / Gaussian-approximation costs) x {plain, ratio, residual, pull} x "
                              "linear / log x axis x one or two fits per plot (shared or separate figures), multi-fit plots; artists of every axes inspected",
           rule="enumeration; drawn coordinates compared with the fit's arrays (rtol 1e-9), legend numbers with the parameter formatters")
R.shards = 6

X = np.array([0.5, 1.5, 2.5, 3.5, 4.5, 5.5])
Y = np.array([1.2, 2.9, 5.3, 7.0, 9.4, 10.6])
RAW = [round(float(v), 3) for v in np.linspace(-2.6, 2.9, 60) ** 3 / 8.0]


def line(x, a=1.0, b=0.5):
    return a * x + b


def iline(a=1.0, b=0.5):
    return a * np.arange(6) + b


def normal(x, mu=0.1, sigma=1.2):
    return np.exp(-0.5 * ((x - mu) / sigma) ** 2) / np.sqrt(2.0 * np.pi * sigma ** 2)


def expo(x, A=1.0, tau=2.0):
    return A * np.exp(x / tau)


def decay(x, A=1.0, q=-1.0):
    return A * np.exp(x / q)


VARIANT = [0]


def wobble(n):
    """deterministic perturbation of the data set number VARIANT[0] (thorough tier: several data sets per configuration)"""
    v = VARIANT[0]
    return 0.35 * np.sin((np.arange(n) + 1.0) * (1.0 + v)) * (v > 0)


def make(kind, config, shift=0.0):
    shift = shift + wobble(6) if kind in ("xy", "indexed") else shift
    if kind == "xy-decay":                # q = -tau: the lower uncertainty of q is the larger one
        xs = np.array([0.5, 1.0, 1.5, 2.0, 2.5, 3.0, 3.5, 4.0])
        f = XYFit([xs, np.array([4.61, 2.86, 2.4, 1.1, 1.32, 1.0, 0.83, 0.43])], decay)
        f.add_error("y", 0.4)
        return f
    if kind == "xy-nonlinear":            # asymmetric uncertainties of clearly different size
        f = XYFit([X, np.array([1.3, 2.1, 3.4, 6.1, 9.0, 16.5])], expo)
        f.add_error("y", 1.2)
        return f
    if kind == "xy":
        f = XYFit([X, Y + shift], line)
        f.add_error("y", 0.4)
        if config in ("xy-errors", "everything"):
            f.add_error("x", 0.15)
        if config in ("model-relative", "everything"):
            f.add_error("y", 0.05, relative=True, reference="model")
        if config == "correlated":
            f.add_error("y", 0.3, correlation=0.5)
    elif kind == "indexed":
        f = IndexedFit(Y + shift, iline, cost_function="gauss_approximation" if config == "poisson-like" else "chi2")
        f.add_error(0.4)
        if config == "model-relative":
            f.add_error(0.05, relative=True, reference="model")
    elif kind == "hist" and config == "overflow":
        f = HistFit(HistContainer(5, (-1.0, 1.5), fill_data=RAW[VARIANT[0]:]), normal, cost_function="poisson")          # a good part of the entries lies outside the bin range
    elif kind == "hist" and config == "empty-bin":
        f = HistFit(HistContainer(8, (-3, 3.1), fill_data=RAW[VARIANT[0]:]), normal, cost_function="poisson")          # the first bin holds no entry: its Poisson uncertainty is 0, the others' is not
    elif kind == "hist":
        f = HistFit(HistContainer(6, (-2.3, 3.1), fill_data=RAW[VARIANT[0]:]), normal, cost_function={"poisson-like": "poisson", "gauss-approx": "gauss_approximation"}.get(config, "poisson"))
        if config == "gauss-approx":
            f.add_error(0.5)
    else:
        f = UnbinnedFit(RAW[VARIANT[0]:], normal)
    return f


def errorbars(ax):
    out = []
    for c in ax.containers:
        if type(c).__name__ != "ErrorbarContainer":
            continue
        dl, caps, bars = c.lines
        x, y = (np.asarray(dl.get_xdata(), float), np.asarray(dl.get_ydata(), float)) if dl is not None else (None, None)
        xerr = yerr = None
        for b in bars:
            seg = np.asarray(b.get_segments(), float)
            if len(seg) == 0:
                continue
            if np.allclose(seg[:, 0, 1], seg[:, 1, 1]) and not np.allclose(seg[:, 0, 0], seg[:, 1, 0]):
                xerr = (seg[:, 1, 0] - seg[:, 0, 0]) / 2, (seg[:, 0, 0] + seg[:, 1, 0]) / 2, seg[:, 0, 1]
            else:
                yerr = (seg[:, 0, 1], seg[:, 1, 1]), seg[:, 0, 0]
        out.append({"x": x, "y": y, "xerr": xerr, "yerr": yerr, "label": c.get_label()})
    return out


def near(a, b, what, tol=1e-9):
    a, b = np.asarray(a, float), np.asarray(b, float)
    if a.shape != b.shape or not np.allclose(a, b, rtol=tol, atol=tol * max(1.0, float(np.max(np.abs(b))) if b.size else 1.0)):
        return {"got": a, "expected": b, "witness_class": what}


def total_yerr(f, which="data"):
    """documented: pointwise total uncertainty (+ sqrt(counts) in quadrature where the cost function implies Poisson statistics)"""
    arr = {"xy": lambda: f.y_total_error, "indexed": lambda: f.total_error, "hist": lambda: f.total_error}[kind_of(f)]()
    ref = f.data if kind_of(f) != "xy" else f.y_data
    ga = np.asarray(f._cost_function.get_uncertainty_gaussian_approximation(ref), float)
    return np.sqrt(np.asarray(arr, float) ** 2 + ga ** 2)


def kind_of(f):
    return {"XYFit": "xy", "IndexedFit": "indexed", "HistFit": "hist", "UnbinnedFit": "unbinned"}[type(f).__name__]


def check_fit_axes(f, axes, option, tag, log_x=False, asym=False):
    k = kind_of(f)
    main = axes["main"]
    ebs = errorbars(main)
    if k == "unbinned":
        # rug: one vertical segment per entry at its x; density curve: the model function over the plotted range
        segs = [c for c in main.collections if type(c).__name__ == "LineCollection"]
        if not segs:
            return {"got": [type(c).__name__ for c in main.collections], "expected": "one vertical line per entry", "witness_class": tag + ":no-data-artist"}
        sg = np.asarray(segs[0].get_segments(), float)
        xs = np.sort(np.asarray(f.data, float))
        if sg.shape != (len(xs), 2, 2) or not np.allclose(np.sort(sg[:, 0, 0]), xs) or not np.allclose(sg[:, 0, 0], sg[:, 1, 0]):
            return {"got": sg[:3].tolist(), "expected": xs[:3].tolist(), "witness_class": tag + ":rug-x"}
        if not (np.allclose(sg[:, 0, 1], sg[0, 0, 1]) and np.allclose(sg[:, 1, 1], sg[0, 1, 1]) and sg[0, 1, 1] > sg[0, 0, 1]):
            return {"got": sg[:3].tolist(), "expected": "all lines from the same baseline to the same height", "witness_class": tag + ":rug-height"}
        lines = [l for l in main.lines if len(l.get_xdata()) >= 100]
        if not lines:
            return {"got": len(main.lines), "expected": "a model curve", "witness_class": tag + ":no-model-line"}
        lx, ly = np.asarray(lines[0].get_xdata(), float), np.asarray(lines[0].get_ydata(), float)
        r = near(ly, f.eval_model_function(x=lx), tag + ":model-line", 1e-9)
        if r:
            return r
        if lx.min() > xs.min() or lx.max() < xs.max():
            return {"got": [lx.min(), lx.max()], "expected": [xs.min(), xs.max()], "witness_class": tag + ":model-line-range"}
        return None
    data = [e for e in ebs if e["x"] is not None and len(e["x"]) == len(np.atleast_1d(f.data if k != "xy" else f.x_data))]
    if not data:
        return {"got": [e["label"] for e in ebs], "expected": "an error-bar artist for the data", "witness_class": tag + ":no-data-artist"}
    d = data[0]
    if k == "xy":
        xd, yd = np.asarray(f.x_data, float), np.asarray(f.y_data, float)
    elif k == "indexed":
        xd, yd = np.arange(len(f.data), dtype=float), np.asarray(f.data, float)
    else:
        edges = np.asarray(f.data_container.bin_edges, float)
        xd, yd = 0.5 * (edges[1:] + edges[:-1]), np.asarray(f.data, float)
    r = near(d["x"], xd, tag + ":data-x") or near(d["y"], yd, tag + ":data-y")
    if r:
        return r
    ye = total_yerr(f)
    if np.any(ye > 0):
        if d["yerr"] is None:
            return {"got": None, "expected": ye, "witness_class": tag + ":data-yerr-missing"}
        r = near(d["yerr"][0][0], yd - ye, tag + ":data-yerr") or near(d["yerr"][0][1], yd + ye, tag + ":data-yerr")
        if r:
            return r
    if k == "xy":
        xe = np.asarray(f.x_total_error, float)
        if np.any(xe > 0):
            if d["xerr"] is None:
                return {"got": None, "expected": xe, "witness_class": tag + ":data-xerr-missing"}
            r = near(d["xerr"][0], xe, tag + ":data-xerr")
            if r:
                return r
    elif k == "hist":
        edges = np.asarray(f.data_container.bin_edges, float)
        if d["xerr"] is None or near(d["xerr"][0], 0.5 * (edges[1:] - edges[:-1]), tag + ":bin-span"):
            return {"got": None if d["xerr"] is None else d["xerr"][0], "expected": 0.5 * (edges[1:] - edges[:-1]), "witness_class": tag + ":bin-span"}
        # density curve: the model density scaled like the model bars - by ALL entries of the histogram (HistFit.model counts under/overflow too) and the mean bin width
        lines = [l for l in main.lines if len(l.get_xdata()) >= 100]
        if lines:
            lx, ly = np.asarray(lines[0].get_xdata(), float), np.asarray(lines[0].get_ydata(), float)
            hc = f.data_container
            want = f.eval_model_function_density(x=lx) * (float(hc.high - hc.low) / hc.size) * (hc.n_entries if f.density else 1.0)
            r = near(ly, want, tag + ":density-curve", 2e-3 if asym else 1e-9)
            if r:
                return r
        else:
            return {"got": len(main.lines), "expected": "a model density curve", "witness_class": tag + ":no-density-curve"}
    # model curve / band (xy): every drawn line with many points must be the model function at the current parameters
    if k == "xy":
        lines = [l for l in main.lines if len(l.get_xdata()) >= 100]
        if not lines:
            return {"got": len(main.lines), "expected": "a model curve", "witness_class": tag + ":no-model-line"}
        lx, ly = np.asarray(lines[0].get_xdata(), float), np.asarray(lines[0].get_ydata(), float)
        r = near(ly, f.eval_model_function(x=lx), tag + ":model-line", 2e-3 if asym else 1e-9)      # (MINOS + re-minimisation during the same plot call may move the optimum within the minimizer tolerance: C08)
        if r:
            return r
        lo, hi = float(np.min(xd)), float(np.max(xd))
        if lx.min() > lo or lx.max() < hi:
            return {"got": [lx.min(), lx.max()], "expected": [lo, hi], "witness_class": tag + ":model-line-range"}
        polys = [c for c in main.collections if "Poly" in type(c).__name__]
        if polys:
            verts = polys[0].get_paths()[0].vertices
            band = np.asarray(f.error_band(lx), float)
            up, dn = ly + band, ly - band
            ys_at = {round(float(vx), 12): [] for vx in lx}
            for vx, vy in verts:
                key = round(float(vx), 12)
                if key in ys_at:
                    ys_at[key].append(float(vy))
            for q in (0, len(lx) // 2, len(lx) - 1):
                got = sorted(set(round(v, 9) for v in ys_at[round(float(lx[q]), 12)]))
                want = sorted({round(float(dn[q]), 9), round(float(up[q]), 9)})
                if not all(any(abs(g - w) <= (2e-3 if asym else 1e-7) * max(1, abs(w)) for g in got) for w in want):
                    return {"got": got, "expected": want, "witness_class": tag + ":error-band"}
        elif f.errors_valid:
            return {"got": "no band", "expected": "model +/- propagated parameter uncertainty", "witness_class": tag + ":error-band-missing"}
    # model markers for indexed / histogram fits
    if k in ("indexed", "hist"):
        md = np.asarray(f.model, float)
        found = False
        for e in ebs:
            if e["y"] is not None and len(e["y"]) == len(md) and np.allclose(e["y"], md, rtol=1e-9, atol=1e-12) and e is not d:
                found = True
        for l in main.lines:
            if len(l.get_ydata()) == len(md) and np.allclose(np.asarray(l.get_ydata(), float), md, rtol=1e-9, atol=1e-12):
                found = True
        for coll in main.collections + list(main.patches):
            pass
        bars = [p for p in main.patches if hasattr(p, "get_height")]
        if bars and len(bars) >= len(md) and np.allclose([b.get_height() for b in bars[:len(md)]], md, rtol=1e-9, atol=1e-12):
            found = True
        if not found:
            drawn = np.concatenate([np.asarray(l.get_ydata(), float) for l in main.lines if len(l.get_ydata())] or [np.zeros(0)])      # one horizontal segment per point / bin
            if not all(np.any(np.isclose(drawn, v_, rtol=1e-9, atol=1e-12)) for v_ in md):
                return {"got": [len(l.get_ydata()) for l in main.lines], "expected": md, "witness_class": tag + ":model-values-not-drawn"}
    # ratio / residual / pull panel
    if option in ("ratio", "residual", "pull"):
        pax = axes.get(option)
        if pax is None:
            return {"got": list(axes), "expected": option, "witness_class": tag + ":panel-missing"}
        pe = [e for e in errorbars(pax) if e["x"] is not None and len(e["x"]) == len(yd)]
        if not pe:
            return {"got": len(errorbars(pax)), "expected": "an error-bar artist", "witness_class": tag + f":{option}:no-artist"}
        md = np.asarray(f.y_model if k == "xy" else f.model, float)
        want = {"ratio": yd / md, "residual": yd - md, "pull": (yd - md) / ye}[option]
        r = near(pe[0]["y"], want, tag + f":{option}:values")
        if r:
            return r
        if option == "pull":
            if pe[0]["yerr"] is None:
                return {"got": None, "expected": "a bar from 0 to each pull", "witness_class": tag + ":pull:bars-missing"}
            lo_, hi_ = np.minimum(*pe[0]["yerr"][0]), np.maximum(*pe[0]["yerr"][0])
            r = near(lo_, np.minimum(want, 0.0), tag + ":pull:bar-from-zero", 1e-8) or near(hi_, np.maximum(want, 0.0), tag + ":pull:bar-from-zero", 1e-8)
            if r:
                return r
        if option != "pull" and pe[0]["yerr"] is None and np.any(ye > 0):
            return {"got": None, "expected": ye, "witness_class": tag + f":{option}:error-bars-missing"}
        if option != "pull" and pe[0]["yerr"] is not None:
            scale = md if option == "ratio" else 1.0
            r = near(pe[0]["yerr"][0][1] - pe[0]["yerr"][0][0], 2 * ye / scale, tag + f":{option}:error-bars", 1e-8)
            if r:
                return r


NUM = r"[-+]?(?:\d+\.?\d*|\.\d+)(?:[eE][-+]?\d+)?"


def check_legend(f, fig, tag, asym=False):
    texts = [t.get_text() for lg in fig.legends for t in lg.get_texts()]
    for ax in fig.axes:
        if ax.get_legend():
            texts += [t.get_text() for t in ax.get_legend().get_texts()]
    info = "\n".join(texts)
    f._update_parameter_formatters(update_asymmetric_errors=asym)
    for pf in f._get_model_function_parameter_formatters():
        want = pf.get_formatted(with_name=True, with_value=True, with_errors=True, format_as_latex=True, asymmetric_error=asym)
        if want.replace(" ", "") not in info.replace(" ", ""):
            return {"got": info[-400:], "expected": want, "witness_class": tag + ":legend-parameter"}
    if asym:
        flat = info.replace("$", "").replace("{", "").replace("}", "").replace("\\times10^", "e")
        ape = np.asarray(f.asymmetric_parameter_errors, float)
        for k_, pf in enumerate(f._get_model_function_parameter_formatters()):
            m = re.search(re.escape(pf.latex_name.replace("{", "").replace("}", "")) + r"\s*=\s*(" + NUM + r")\^\+(" + NUM + r")_-(" + NUM + ")", flat)
            if not m:
                return {"got": flat[-300:], "expected": "value^+up_-down for " + pf.name, "witness_class": tag + ":legend-asymmetric-unparsable"}
            up, dn = float(m.group(2)), float(m.group(3))
            if abs(up - abs(ape[k_][1])) > 0.06 * abs(ape[k_][1]) or abs(dn - abs(ape[k_][0])) > 0.06 * abs(ape[k_][0]):
                return {"got": (up, dn), "expected": (abs(ape[k_][1]), abs(ape[k_][0])), "witness_class": tag + ":legend-up-down"}
    if f.goodness_of_fit is not None and f.ndf:
        ms = re.findall(r"=\s*(" + NUM + r")\s*/\s*(\d+)\s*=\s*(" + NUM + ")", info.replace("$", "").replace("{", "").replace("}", ""))
        if ms and not any(abs(float(g_) - f.goodness_of_fit) <= 1e-3 * max(1.0, abs(f.goodness_of_fit)) and int(n_) == f.ndf for g_, n_, _ in ms):
            return {"got": ms, "expected": (f.goodness_of_fit, f.ndf), "witness_class": tag + ":legend-gof"}


def gen(tier, seed):
    for variant in (range(6) if tier == "thorough" else (0,)):
        for inp in gen_one(tier, seed):
            yield dict(inp, variant=variant)


def gen_one(tier, seed):
    for kind, configs in (("xy", ("y-errors", "xy-errors", "model-relative", "correlated", "everything")), ("indexed", ("y-errors", "model-relative", "poisson-like")), ("hist", ("poisson-like", "gauss-approx", "empty-bin", "overflow")), ("unbinned", ("plain",))):
        for config in configs:
            for option in ("plain", "ratio", "residual", "pull"):
                if (kind == "unbinned" and option != "plain") or (config == "empty-bin" and option not in ("plain", "residual")):
                    continue
                for log_x in ((False, True) if kind == "xy" and config == "y-errors" else (False,)):
                    yield {"kind": kind, "config": config, "option": option, "log_x": log_x, "fits": 1}
    for option in ("plain", "ratio"):
        for separate in (False, True):
            yield {"kind": "xy", "config": "xy-errors", "option": option, "log_x": False, "fits": 2, "separate": separate}
            yield {"kind": "mixed", "config": "y-errors", "option": option, "log_x": False, "fits": 2, "separate": True}
    yield {"kind": "multifit", "config": "y-errors", "option": "plain", "log_x": False, "fits": 2}
    yield {"kind": "xy", "config": "y-errors", "option": "plain", "log_x": False, "fits": 1, "asymmetric": True}
    yield {"kind": "xy-nonlinear", "config": "y-errors", "option": "plain", "log_x": False, "fits": 1, "asymmetric": True}
    yield {"kind": "xy-decay", "config": "y-errors", "option": "plain", "log_x": False, "fits": 1, "asymmetric": True}


@R.oracle("plot_draws_the_fit", gen, obligation="PlotAdapter* / Plot")
def plot(inp):
    kind, config, option = inp["kind"], inp["config"], inp["option"]
    VARIANT[0] = inp.get("variant", 0)
    plt.close("all")
    if kind == "multifit":
        a, b = make("xy", config), make("xy", config, shift=1.5)
        mf = MultiFit([a, b]); mf.do_fit()
        fits, target = [a, b], mf
    elif inp["fits"] == 2:
        fits = [make("xy", config), make("indexed" if kind == "mixed" else "xy", "y-errors", shift=1.5)]
        for f in fits:
            f.do_fit()
        target = fits
    else:
        fits = [make(kind, config)]
        fits[0].do_fit()
        target = fits[0]
    if option == "pull" and any(kind_of(f_) != "unbinned" and np.any(total_yerr(f_) == 0) for f_ in fits):
        return None          # a point without any uncertainty has no pull: outside the property's statement
    p = Plot(target, separate_figures=inp.get("separate", False) or kind == "multifit")
    if inp["log_x"]:
        p.x_scale = "log"
    kw = {option: True} if option != "plain" else {}
    asym = inp.get("asymmetric", False)
    p.plot(asymmetric_parameter_errors=asym, **kw)
    tag = ("two-fits:" if len(fits) > 1 else "") + kind + (":" + option if option != "plain" else "")
    axes_list = p.axes
    for q, f in enumerate(fits):
        axes = axes_list[q] if len(axes_list) > 1 else axes_list[0]
        if len(fits) > 1 and len(axes_list) == 1:
            # several fits on one figure: each fit's artists are among the axes' artists; check that THIS fit's data is drawn somewhere with its own error bars
            ebs = errorbars(axes["main"])
            yd = np.asarray(f.y_data if kind_of(f) == "xy" else f.data, float)
            mine = [e for e in ebs if e["y"] is not None and len(e["y"]) == len(yd) and np.allclose(e["y"], yd)]
            if not mine:
                return {"got": [None if e["y"] is None else e["y"][:2].tolist() for e in ebs], "expected": yd[:2], "witness_class": tag + ":fit-%d-data-missing" % q}
            ye = total_yerr(f)
            r = near(mine[0]["yerr"][0][1] - mine[0]["yerr"][0][0], 2 * ye, tag + ":fit-%d-yerr" % q, 1e-8)
            if r:
                return r
            continue
        r = check_fit_axes(f, axes, option, tag, inp["log_x"], asym)
        if r:
            return r
    for q, f in enumerate(fits):
        fig = p.figures[q] if len(p.figures) > 1 else p.figures[0]
        r = check_legend(f, fig, tag, asym)
        if r:
            return r
    plt.close("all")


def gen_groups(tier, seed):
    for n in (2, 3):
        for flags in itertools.product((False, True), repeat=n):
            if any(flags):
                yield {"fits": n, "fit_info": list(flags)}


@R.oracle("legend_groups_results_with_their_fit", gen_groups, obligation="Plot._render_legend")
def groups(inp):
    """several fits on one plot: the result text of fit k stands directly after the legend entries of fit k (and nowhere else)"""
    plt.close("all")
    fits = []
    for q in range(inp["fits"]):
        f = make("xy", "y-errors", shift=1.5 * q)
        f.data_container.label, f.model_label = "data#%d" % q, "model#%d" % q
        f.do_fit()
        fits.append(f)
    p = Plot(fits)
    p.plot(fit_info=inp["fit_info"])
    texts = [t.get_text() for lg in p.figures[0].legends for t in lg.get_texts()]
    owner = None
    seen_info = set()
    for t in texts:
        m = re.search(r"#(\d)", t)
        if "\n" not in t and m:
            owner = int(m.group(1))
            continue
        if "\n" in t:          # a result text: belongs to the fit whose entries precede it
            f = fits[owner] if owner is not None else None
            if f is None:
                return {"got": texts, "expected": "entries before the first result text", "witness_class": "info-before-any-entry"}
            f._update_parameter_formatters()
            want = f._get_model_function_parameter_formatters()[0].get_formatted(with_name=True, with_value=True, with_errors=True, format_as_latex=True)
            if want.replace(" ", "") not in t.replace(" ", "") or not inp["fit_info"][owner] or owner in seen_info:
                return {"got": [x[:30] for x in texts], "expected": "the results of fit %d after its own entries" % owner, "witness_class": "info-in-foreign-group:%s" % "".join("TF"[not b] for b in inp["fit_info"])}
            seen_info.add(owner)
    if seen_info != {q for q, b in enumerate(inp["fit_info"]) if b}:
        return {"got": sorted(seen_info), "expected": inp["fit_info"], "witness_class": "info-missing"}
    plt.close("all")


sys.exit(R.main())
