"""Native side of C19: every malformed variant of every public specification call must raise where it is given, and a rejected
call must leave all later results the same as if it had not been made (observables compared before / after)."""
import itertools, sys, copy
from common import parse, Runner, imp

args = parse()
import numpy as np
kafe2 = imp("kafe2")
nx = imp("kafe2.core.fitters.nexus")
err_mod = imp("kafe2.core.error")
cons_mod = imp("kafe2.core.constraint")
IndexedContainer = imp("kafe2.fit.indexed.container").IndexedContainer
XYContainer = imp("kafe2.fit.xy.container").XYContainer
HistContainer = imp("kafe2.fit.histogram.container").HistContainer
XYFit, IndexedFit, HistFit, UnbinnedFit = kafe2.XYFit, kafe2.IndexedFit, kafe2.HistFit, kafe2.UnbinnedFit
R = Runner("C19", args, scope="every listed specification call x its malformed variants (sizes off by 1..2, any negative entry position, coefficients -0.1/1.1/2, unknown names, cycle-closing edges) on fresh and on used objects",
           rule="enumeration of (object kind, call, malformed variant, object age); observables snapshotted before and after the rejected call")

GOOD3 = [0.1, 0.2, 0.3]
COR3 = [[1.0, 0.1, 0.0], [0.1, 1.0, 0.0], [0.0, 0.0, 1.0]]


def snap_container(c):
    out = {}
    for name in ("data", "err", "cov_mat", "x", "y", "x_err", "y_err", "x_cov_mat", "y_cov_mat", "underflow", "overflow", "n_entries", "bin_edges"):
        if hasattr(type(c), name):
            try:
                out[name] = np.array(getattr(c, name), dtype=float).tolist()
            except Exception as e:
                out[name] = "raises " + type(e).__name__
    out["sources"] = sorted((k, bool(v["enabled"])) for k, v in c._error_dicts.items())
    return out


def mk_container(kind, used):
    if kind == "indexed":
        c = IndexedContainer([1.0, 2.0, 3.0])
        add = lambda *a, **k: c.add_error(*a, **k)
        addm = lambda *a, **k: c.add_matrix_error(*a, **k)
    elif kind == "xy":
        c = XYContainer([1.0, 2.0, 3.0], [2.0, 4.0, 5.0])
        add = lambda *a, **k: c.add_error("y", *a, **k)
        addm = lambda *a, **k: c.add_matrix_error("y", *a, **k)
    else:
        c = HistContainer(3, (0.0, 3.0), fill_data=[0.5, 1.5, 1.6, 2.5])
        add = lambda *a, **k: c.add_error(*a, **k)
        addm = lambda *a, **k: c.add_matrix_error(*a, **k)
    if used:
        add(0.1, name="first")
        add(0.05, name="second", relative=True)
        _ = snap_container(c)
    return c, add, addm


CONTAINER_BAD = {
    "simple_size_short": lambda c, add, addm: add([0.1, 0.2]),
    "simple_size_long": lambda c, add, addm: add([0.1, 0.2, 0.3, 0.4]),
    "simple_negative_first": lambda c, add, addm: add([-0.1, 0.2, 0.3]),
    "simple_negative_last": lambda c, add, addm: add([0.1, 0.2, -1e-9]),
    "simple_negative_scalar": lambda c, add, addm: add(-0.5),
    "simple_2d": lambda c, add, addm: add([[0.1, 0.2, 0.3]]),
    "corr_below": lambda c, add, addm: add(0.1, correlation=-0.1),
    "corr_above": lambda c, add, addm: add(0.1, correlation=1.1),
    "matrix_wrong_shape": lambda c, add, addm: addm([[0.1, 0.0], [0.0, 0.1]], "cov"),
    "matrix_not_square": lambda c, add, addm: addm([[0.1, 0.0, 0.0], [0.0, 0.1, 0.0]], "cov"),
    "matrix_1d": lambda c, add, addm: addm([0.1, 0.2, 0.3], "cov"),
    "cor_diag_not_one": lambda c, add, addm: addm([[1.0, 0.1, 0.0], [0.1, 0.9, 0.0], [0.0, 0.0, 1.0]], "cor", err_val=GOOD3),
    "cor_diag_not_one_scalar_error": lambda c, add, addm: addm([[1.0, 0.1, 0.0], [0.1, 0.9, 0.0], [0.0, 0.0, 1.0]], "cor", err_val=0.1),          # one uncertainty for all points: the same check applies
    "cor_without_errors": lambda c, add, addm: addm(COR3, "cor"),
    "cor_err_size": lambda c, add, addm: addm(COR3, "cor", err_val=[0.1, 0.2]),
    "cov_with_err_val": lambda c, add, addm: addm(COR3, "cov", err_val=GOOD3),
    "unknown_matrix_type": lambda c, add, addm: addm(COR3, "covariant"),
    "duplicate_name": lambda c, add, addm: (add(0.1, name="dup"), add(0.2, name="dup")),
    "disable_unknown": lambda c, add, addm: c.disable_error("nope"),
    "enable_unknown": lambda c, add, addm: c.enable_error("nope"),
}


def gen_container(tier, seed):
    for kind in ("indexed", "xy", "hist"):
        for used in (False, True):
            for bad in CONTAINER_BAD:
                yield {"kind": kind, "used": used, "call": bad}
    for used in (False, True):
        for bad in ("axis_unknown", "axis_2", "x_setter_2d", "data_setter_1d", "data_setter_3rows"):
            yield {"kind": "xy", "used": used, "call": bad}
        for bad in ("rebin_unsorted", "rebin_unsorted_tail", "set_bins_short", "set_bins_long", "set_bins_2d", "fill_2d", "data_setter"):
            yield {"kind": "hist", "used": used, "call": bad}
        yield {"kind": "indexed", "used": used, "call": "data_setter_2d"}
    if tier == "thorough":          # two rejected calls in a row: the first rejection must not prepare the ground for the second one to get through or to corrupt the object
        names = [b for b in CONTAINER_BAD if b != "duplicate_name"]
        for kind in ("indexed", "xy", "hist"):
            for b1 in names:
                for b2 in names:
                    yield {"kind": kind, "used": True, "call": b1, "then": b2}


EXTRA_BAD = {
    "axis_unknown": lambda c: c.add_error("z", 0.1), "axis_2": lambda c: c.add_error(2, 0.1),
    "x_setter_2d": lambda c: setattr(c, "x", [[1.0, 2.0, 3.0], [1.0, 2.0, 3.0]]), "data_setter_1d": lambda c: setattr(c, "data", [1.0, 2.0, 3.0]),
    "data_setter_3rows": lambda c: setattr(c, "data", [[1.0, 2.0, 3.0]] * 3),
    "rebin_unsorted": lambda c: c.rebin([0.0, 2.0, 1.0, 3.0]), "rebin_unsorted_tail": lambda c: c.rebin([0.0, 1.0, 3.0, 2.9]),
    "set_bins_short": lambda c: c.set_bins([1, 2]), "set_bins_long": lambda c: c.set_bins([1, 2, 3, 4]), "set_bins_2d": lambda c: c.set_bins([[1, 2, 3]]),
    "fill_2d": lambda c: c.fill([[0.5], [0.6]]), "data_setter": lambda c: setattr(c, "data", [1, 2, 3]), "data_setter_2d": lambda c: setattr(c, "data", [[1.0, 2.0, 3.0], [1.0, 2.0, 3.0]]),
}


@R.oracle("container_rejects_and_is_unchanged", gen_container, obligation="")
def container(inp):
    c, add, addm = mk_container(inp["kind"], inp["used"])
    if inp["call"] == "duplicate_name":
        add(0.1, name="dup")
        before = snap_container(c)
        try:
            add(0.2, name="dup")
            return {"got": "accepted", "expected": "exception", "witness_class": "accepted:" + inp["call"]}
        except Exception:
            pass
    else:
        before = snap_container(c)
        try:
            (CONTAINER_BAD.get(inp["call"]) or (lambda c_, a_, m_: EXTRA_BAD[inp["call"]](c_)))(c, add, addm)
            return {"got": "accepted", "expected": "exception", "witness_class": "accepted:" + inp["call"]}
        except Exception:
            pass
    after = snap_container(c)
    if after != before:
        diff = [k for k in before if before[k] != after.get(k)]
        return {"got": {k: after.get(k) for k in diff}, "expected": {k: before[k] for k in diff}, "witness_class": f"changed:{inp['kind']}:{inp['call']}"}
    if inp.get("then"):
        try:
            CONTAINER_BAD[inp["then"]](c, add, addm)
            return {"got": "accepted", "expected": "exception", "witness_class": "accepted-after-a-rejected-call:" + inp["then"]}
        except Exception:
            pass
        after = snap_container(c)
        if after != before:
            diff = [k for k in before if before[k] != after.get(k)]
            return {"got": {k: after.get(k) for k in diff}, "expected": {k: before[k] for k in diff}, "witness_class": f"changed-after-two-rejected-calls:{inp['kind']}:{inp['then']}"}
    # and the object is still fully usable
    try:
        add(0.3, name="afterwards")
        if inp["kind"] == "hist":
            c.fill([0.5, 2.5])
        snap_container(c)
    except Exception as e:
        return {"got": "object unusable after rejected call: " + repr(e)[:120], "expected": "usable", "witness_class": f"unusable:{inp['kind']}:{inp['call']}"}


def gen_ctor(tier, seed):
    for case in ("hist_unsorted_edges", "hist_descending_range", "hist_no_spec", "hist_nbins_mismatch", "hist_range_mismatch", "xy_shape_mismatch", "xy_2d", "indexed_2d",
                 "simple_corr", "simple_2d", "matrix_1d", "matrix_cor_diag", "matrix_cor_no_err", "matrix_cov_err", "matrix_unknown_type", "float_list_corr", "covmat_not_square",
                 "constraint_asym", "constraint_cor_asym", "constraint_cor_rel_asym", "constraint_shape", "constraint_cor_diag", "constraint_cor_gt1", "constraint_unknown_type", "constraint_cor_no_unc", "constraint_cov_unc",
                 "node_reserved_name", "node_bad_identifier", "cl_zero", "cl_one", "sigma_neg", "cl_ndim0", "cl_two_specs"):
        yield {"case": case}


CTOR = {
    "hist_unsorted_edges": lambda: HistContainer(bin_edges=[0.0, 2.0, 1.0]),
    "hist_descending_range": lambda: HistContainer(n_bins=2, bin_range=(1.0, 0.0), fill_data=[0.2, 0.7]),
    "hist_no_spec": lambda: HistContainer(),
    "hist_nbins_mismatch": lambda: HistContainer(n_bins=5, bin_range=(0, 3), bin_edges=[0.0, 1.0, 3.0]),
    "hist_range_mismatch": lambda: HistContainer(n_bins=2, bin_range=(0, 4), bin_edges=[0.0, 1.0, 3.0]),
    "xy_shape_mismatch": lambda: XYContainer([1.0, 2.0], [1.0, 2.0, 3.0]),
    "xy_2d": lambda: XYContainer([[1.0, 2.0]], [[1.0, 2.0]]),
    "indexed_2d": lambda: IndexedContainer([[1.0, 2.0], [3.0, 4.0]]),
    "simple_corr": lambda: err_mod.SimpleGaussianError([0.1, 0.2], 1.5),
    "simple_2d": lambda: err_mod.SimpleGaussianError([[0.1, 0.2]], 0.0),
    "matrix_1d": lambda: err_mod.MatrixGaussianError([0.1, 0.2], "cov"),
    "matrix_cor_diag": lambda: err_mod.MatrixGaussianError([[1.0, 0.0], [0.0, 1.2]], "cor", err_val=[0.1, 0.2]),
    "matrix_cor_no_err": lambda: err_mod.MatrixGaussianError([[1.0, 0.0], [0.0, 1.0]], "cor"),
    "matrix_cov_err": lambda: err_mod.MatrixGaussianError([[1.0, 0.0], [0.0, 1.0]], "cov", err_val=[0.1, 0.2]),
    "matrix_unknown_type": lambda: err_mod.MatrixGaussianError([[1.0, 0.0], [0.0, 1.0]], "banana"),
    "float_list_corr": lambda: err_mod.cov_mat_from_float_list([0.1, 0.2], correlation=-0.2),
    "covmat_not_square": lambda: err_mod.CovMat([[1.0, 0.0, 0.0], [0.0, 1.0, 0.0]]),
    "constraint_asym": lambda: cons_mod.GaussianMatrixParameterConstraint([0, 1], [1.0, 2.0], [[1.0, 0.2], [0.1, 1.0]]),
    "constraint_cor_asym": lambda: cons_mod.GaussianMatrixParameterConstraint([0, 1], [1.0, 2.0], [[1.0, 0.5], [0.2, 1.0]], matrix_type="cor", uncertainties=[0.1, 0.2]),
    "constraint_cor_rel_asym": lambda: cons_mod.GaussianMatrixParameterConstraint([0, 1], [1.0, 2.0], [[1.0, 0.5], [0.2, 1.0]], matrix_type="cor", uncertainties=[0.1, 0.2], relative=True),
    "constraint_shape": lambda: cons_mod.GaussianMatrixParameterConstraint([0, 1], [1.0, 2.0], [[1.0, 0.0, 0.0], [0.0, 1.0, 0.0], [0.0, 0.0, 1.0]]),
    "constraint_cor_diag": lambda: cons_mod.GaussianMatrixParameterConstraint([0, 1], [1.0, 2.0], [[1.0, 0.0], [0.0, 0.9]], matrix_type="cor", uncertainties=[0.1, 0.2]),
    "constraint_cor_gt1": lambda: cons_mod.GaussianMatrixParameterConstraint([0, 1], [1.0, 2.0], [[1.0, 1.5], [1.5, 1.0]], matrix_type="cor", uncertainties=[0.1, 0.2]),
    "constraint_unknown_type": lambda: cons_mod.GaussianMatrixParameterConstraint([0, 1], [1.0, 2.0], [[1.0, 0.0], [0.0, 1.0]], matrix_type="corr"),
    "constraint_cor_no_unc": lambda: cons_mod.GaussianMatrixParameterConstraint([0, 1], [1.0, 2.0], [[1.0, 0.0], [0.0, 1.0]], matrix_type="cor"),
    "constraint_cov_unc": lambda: cons_mod.GaussianMatrixParameterConstraint([0, 1], [1.0, 2.0], [[1.0, 0.0], [0.0, 1.0]], matrix_type="cov", uncertainties=[0.1, 0.2]),
    "node_reserved_name": lambda: nx.Parameter(1.0, name="__root__"),
    "node_bad_identifier": lambda: nx.Parameter(1.0, name="not an identifier"),
    "cl_zero": lambda: imp("kafe2.core.confidence").ConfidenceLevel(1, cl=0.0),
    "cl_one": lambda: imp("kafe2.core.confidence").ConfidenceLevel(1, cl=1.0),
    "sigma_neg": lambda: imp("kafe2.core.confidence").ConfidenceLevel(1, sigma=-1.0),
    "cl_ndim0": lambda: imp("kafe2.core.confidence").ConfidenceLevel(0, sigma=1.0),
    "cl_two_specs": lambda: imp("kafe2.core.confidence").ConfidenceLevel(1, sigma=1.0, cl=0.5),
}


@R.oracle("constructors_reject", gen_ctor, obligation="__init__")
def ctor(inp):
    try:
        CTOR[inp["case"]]()
    except Exception:
        return None
    return {"got": "accepted", "expected": "exception", "witness_class": "accepted:" + inp["case"]}


def lin(x, a=1.0, b=0.5):
    return a * x + b


def snap_fit(f):
    out = {"parameter_values": np.array(f.parameter_values).tolist(), "cost": float(f.cost_function_value), "ndf": f.ndf, "n_constraints": len(f.parameter_constraints),
           "data": np.array(f.data, dtype=float).tolist(), "fixed": sorted(f._fitter.fixed_parameters), "limited": sorted(f._fitter.limited_parameters), "did_fit": bool(f.did_fit)}
    if f.has_errors:
        out["total_error"] = np.array(f.total_error, dtype=float).tolist()
    if f.did_fit:          # the results of the fit are part of what a rejected call must leave alone
        cm = f.parameter_cov_mat
        out["parameter_cov_mat"] = None if cm is None else np.round(np.asarray(cm, dtype=float), 10).tolist()
        out["parameter_errors"] = np.round(np.asarray(f.parameter_errors, dtype=float), 10).tolist()
    return out


def mk_fit(kind, used):
    if kind == "xy":
        f = XYFit([[1.0, 2.0, 3.0, 4.0], [1.6, 2.4, 3.7, 4.4]], lin)
        f.add_error("y", 0.2)
    elif kind == "indexed":
        f = IndexedFit([1.6, 2.4, 3.7, 4.4], lambda a=1.0, b=0.5: a * np.arange(1, 5) + b)
        f.add_error(0.2)
    elif kind == "indexed_poisson":
        f = IndexedFit([3.0, 2.0, 5.0, 4.0], lambda a=3.0, b=0.1: a * np.ones(4) + b * np.arange(4), cost_function="nll-poisson")
    elif kind == "hist_poisson":
        f = HistFit(HistContainer(4, (-2, 2), fill_data=list(np.linspace(-1.9, 1.9, 30))), lambda x, mu=0.0, sigma=1.0: np.exp(-0.5 * ((x - mu) / sigma) ** 2) / np.sqrt(2 * np.pi * sigma ** 2))
    if used:
        f.do_fit()
        _ = snap_fit(f)
    return f


FIT_BAD = {
    "constraint_unknown_name": lambda f: f.add_parameter_constraint("nope", 1.0, 0.1),
    "matrix_constraint_unknown_name": lambda f: f.add_matrix_parameter_constraint([f.parameter_names[0], "nope"], [1.0, 2.0], [[1.0, 0.0], [0.0, 1.0]]),
    "matrix_constraint_len": lambda f: f.add_matrix_parameter_constraint(list(f.parameter_names[:2]), [1.0], [[1.0]]),
    "matrix_constraint_cor_asym": lambda f: f.add_matrix_parameter_constraint(list(f.parameter_names[:2]), [1.0, 2.0], [[1.0, 0.5], [0.2, 1.0]], matrix_type="cor", uncertainties=[0.05, 0.1]),
    "matrix_constraint_asym": lambda f: f.add_matrix_parameter_constraint(list(f.parameter_names[:2]), [1.0, 2.0], [[1.0, 0.3], [0.1, 1.0]]),
    "limit_unknown": lambda f: f.limit_parameter("nope", 0.0, 1.0),
    "limit_none": lambda f: f.limit_parameter(f.parameter_names[0]),
    "limit_non_numeric": lambda f: f.limit_parameter(f.parameter_names[0], "low", 1.0),
    "unlimit_unknown": lambda f: f.unlimit_parameter("nope"),
    "fix_unknown": lambda f: f.fix_parameter("nope"),
    "fix_unknown_value": lambda f: f.fix_parameter("nope", 1.0),
    "release_unknown": lambda f: f.release_parameter("nope"),
    "set_unknown": lambda f: f.set_parameter_values(nope=1.0),
    "set_known_then_unknown": lambda f: f.set_parameter_values(**{f.parameter_names[0]: 7.5, "nope": 1.0}),
    "set_all_wrong_len": lambda f: f.set_all_parameter_values([1.0]),
    "add_error_unknown_reference": lambda f: (f.add_error("y", 0.1, reference="nowhere") if isinstance(f, XYFit) else f.add_error(0.1, reference="nowhere")),
    "add_error_wrong_size": lambda f: (f.add_error("y", [0.1, 0.2]) if isinstance(f, XYFit) else f.add_error([0.1, 0.2])),
    "add_error_negative": lambda f: (f.add_error("y", -0.1) if isinstance(f, XYFit) else f.add_error(-0.1)),
    "add_error_corr": lambda f: (f.add_error("y", 0.1, correlation=1.5) if isinstance(f, XYFit) else f.add_error(0.1, correlation=1.5)),
    "disable_unknown": lambda f: f.disable_error("nope"),
    "dynamic_error_algorithm": lambda f: setattr(f, "dynamic_error_algorithm", "sideways"),
}


def gen_fit(tier, seed):
    for kind in ("xy", "indexed", "hist_poisson"):
        for used in (False, True):
            for bad in FIT_BAD:
                yield {"kind": kind, "used": used, "call": bad}
    for used in (False, True):
        for bad in ("poisson_negative_data", "poisson_noninteger_data"):
            yield {"kind": "hist_poisson", "used": used, "call": bad}
            yield {"kind": "indexed_poisson", "used": used, "call": bad}
    for bad in ("reserved_argument_name", "unknown_cost_function", "poisson_ctor_negative", "reserved_name_in_model_function_object:xy", "reserved_name_in_model_function_object:indexed", "reserved_name_in_model_function_object:hist"):
        yield {"kind": "ctor", "used": False, "call": bad}
    for bad in ("multi_disable_unknown", "multi_fix_unknown", "multi_set_unknown", "multi_constraint_unknown", "multi_shared_source_wrong_size", "multi_shared_source_negative"):
        yield {"kind": "multi", "used": False, "call": bad}


@R.oracle("fit_rejects_and_is_unchanged", gen_fit, obligation="FitBase.")
def fit(inp):
    if inp["kind"] == "ctor":
        try:
            if inp["call"] == "reserved_argument_name":
                XYFit([[1.0, 2.0], [1.0, 2.0]], lambda x, cost=1.0: x * cost)
            elif inp["call"].startswith("reserved_name_in_model_function_object"):          # the model given as a ready-made model function object: same rule as for a plain function
                which = inp["call"].split(":")[1]
                if which == "xy":
                    XYFit([[1.0, 2.0, 3.0], [1.0, 2.0, 3.1]], imp("kafe2.fit._base.model").ModelFunctionBase(lambda x, x_error=1.0: x * x_error))
                elif which == "indexed":
                    IndexedFit([1.0, 2.0, 3.0], imp("kafe2.fit.indexed.model").IndexedModelFunction(lambda total_error=1.0: total_error * np.ones(3)))
                else:
                    imp("kafe2").HistFit(HistContainer(4, (-2, 2), fill_data=[0.1, 0.3, -0.5, 1.1]), imp("kafe2.fit.histogram.model").HistModelFunction(lambda x, total_error=1.0: np.exp(-0.5 * x * x / total_error) / np.sqrt(2 * np.pi * total_error)))
            elif inp["call"] == "unknown_cost_function":
                XYFit([[1.0, 2.0], [1.0, 2.0]], lin, cost_function="chi3")
            else:
                IndexedFit([1.0, -2.0, 3.0], lambda a=1.0: a * np.ones(3), cost_function="nll-poisson")
            return {"got": "accepted", "expected": "exception", "witness_class": "accepted:" + inp["call"]}
        except Exception:
            return None
    if inp["kind"] == "multi":          # the same calls on a multi-fit: an unknown name is refused there too, and no member is touched
        MultiFit = imp("kafe2").MultiFit
        m1, m2 = mk_fit("xy", False), mk_fit("xy", False)
        mf = MultiFit([m1, m2])
        before = (snap_fit(m1), snap_fit(m2), [list(map(float, mf.parameter_values)), sorted(mf._fitter.fixed_parameters), float(mf.cost_function_value)])
        try:
            {"multi_disable_unknown": lambda: mf.disable_error("nope"), "multi_fix_unknown": lambda: mf.fix_parameter("nope"), "multi_set_unknown": lambda: mf.set_parameter_values(nope=1.0),
             "multi_constraint_unknown": lambda: mf.add_parameter_constraint("nope", 1.0, 0.1),
             "multi_shared_source_wrong_size": lambda: mf.add_error([0.1] * (len(m1.data_container.y) + 3), fits=[0, 1], axis="y", name="shared"),
             "multi_shared_source_negative": lambda: mf.add_error(-0.1, fits=[0, 1], axis="y", name="shared")}[inp["call"]]()
            return {"got": "accepted", "expected": "exception", "witness_class": "accepted:" + inp["call"]}
        except Exception:
            pass
        if inp["call"].startswith("multi_shared_source"):          # the refused source is registered nowhere: the corrected call under the same name goes through
            if "shared" in mf._shared_error_dicts or any("shared" in m_.data_container._error_dicts for m_ in (m1, m2)):
                return {"got": "the refused source is still registered", "expected": "registered nowhere", "witness_class": f"changed:{inp['call']}:registered"}
            try:
                mf.add_error(0.1, fits=[0, 1], axis="y", name="shared")
            except Exception as e:
                return {"got": "corrected call refused: " + repr(e)[:120], "expected": "accepted", "witness_class": f"changed:{inp['call']}:name-stays-taken"}
            return None
        after = (snap_fit(m1), snap_fit(m2), [list(map(float, mf.parameter_values)), sorted(mf._fitter.fixed_parameters), float(mf.cost_function_value)])
        if after != before:
            return {"got": str(after)[:300], "expected": str(before)[:300], "witness_class": f"changed:{inp['call']}"}
        return None
    f = mk_fit(inp["kind"], inp["used"])
    before = snap_fit(f)
    try:
        if inp["call"] == "poisson_negative_data":
            f.data = HistContainer(4, (-2, 2), fill_data=[0.1]).__class__(4, (-2, 2)) if False else [3.0, -1.0, 2.0, 4.0]
        elif inp["call"] == "poisson_noninteger_data":
            f.data = [3.0, 1.5, 2.0, 4.0]
        else:
            FIT_BAD[inp["call"]](f)
        return {"got": "accepted", "expected": "exception", "witness_class": "accepted:" + inp["call"]}
    except Exception:
        pass
    try:
        after = snap_fit(f)
    except Exception as e:
        return {"got": "fit unusable after rejected call: " + repr(e)[:150], "expected": "unchanged", "witness_class": f"unusable:{inp['call']}"}
    if after != before:
        diff = [k for k in before if before[k] != after.get(k)]
        return {"got": {k: after.get(k) for k in diff}, "expected": {k: before[k] for k in diff}, "witness_class": f"changed:{inp['call']}:" + ",".join(diff)}


def gen_graph(tier, seed):
    for case in ("dependency_cycle", "dependency_cycle_naming_an_existing_dependency", "dependency_cycle_existing_last", "dependency_self", "dependency_unknown", "add_duplicate", "add_cycle_replace", "alias_unknown", "bad_existing_behavior"):
        for used in (False, True):
            yield {"case": case, "used": used}


def snap_graph(g):
    return {name: (sorted(c.name for c in node.get_children()), sorted(p.name for p in node.get_parents())) for name, node in g._nodes.items()}


@R.oracle("graph_rejects_and_is_unchanged", gen_graph, obligation="Nexus.")
def graph(inp):
    g = nx.Nexus()
    a = g.add(nx.Parameter(1.0, name="a"))
    f = g.add_function(lambda a: a + 1, func_name="f")
    h = g.add_function(lambda f: f * 2, func_name="h")
    if inp["used"]:
        _ = h.value
    before = snap_graph(g)
    vals = lambda: (a.value, f.value, h.value)
    try:
        {"dependency_cycle": lambda: g.add_dependency("f", "h"), "dependency_cycle_naming_an_existing_dependency": lambda: g.add_dependency("f", ("a", "h")), "dependency_cycle_existing_last": lambda: g.add_dependency("f", ("h", "a")), "dependency_self": lambda: g.add_dependency("f", "f"), "dependency_unknown": lambda: g.add_dependency("f", ("a", "nope")),
         "add_duplicate": lambda: g.add(nx.Parameter(3.0, name="a")), "add_cycle_replace": lambda: g.add(nx.Function(lambda h: h, name="a", parameters=[h]), existing_behavior="replace"),
         "alias_unknown": lambda: g.add_alias("z", alias_for="nope"), "bad_existing_behavior": lambda: g.add(nx.Parameter(3.0, name="q"), existing_behavior="whatever")}[inp["case"]]()
        return {"got": "accepted", "expected": "exception", "witness_class": "accepted:" + inp["case"]}
    except (ValueError, TypeError):
        pass
    after = snap_graph(g)
    if after != before:
        return {"got": after, "expected": before, "witness_class": "changed:" + inp["case"]}
    a.value = 5.0
    if vals() != (5.0, 6.0, 12.0):
        return {"got": vals(), "expected": (5.0, 6.0, 12.0), "witness_class": "values-after:" + inp["case"]}


sys.exit(R.main())
