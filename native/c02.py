"""Native side of C02: every container type, histories of add / disable / enable / value changes interleaved with reads,
compared with the from-scratch sum over the currently enabled sources at the current reference values (the property's formula)."""
import itertools, sys
from common import parse, Runner, imp

args = parse()
import numpy as np
kafe2 = imp("kafe2")
err_mod = imp("kafe2.core.error")
IndexedContainer = imp("kafe2.fit.indexed.container").IndexedContainer
XYContainer = imp("kafe2.fit.xy.container").XYContainer
HistContainer = imp("kafe2.fit.histogram.container").HistContainer
IndexedParametricModel = imp("kafe2.fit.indexed.model").IndexedParametricModel
XYParametricModel = imp("kafe2.fit.xy.model").XYParametricModel
HistParametricModel = imp("kafe2.fit.histogram.model").HistParametricModel
R = Runner("C02", args, scope="11 container kinds / ways of changing the values (data, x, y setters, fill, rebin, set_bins, model parameters, model support) x histories of <= 3 operations (4 thorough) from {add simple abs/rel (rho 0 / 0.3), add matrix cov abs/rel, cor+err abs/rel, disable, enable, value change, read} x observers err/cov/cor/inverse",
           rule="exhaustive enumeration of operation sequences per container kind; final state compared with the from-scratch formula")

N = 3
COR = np.array([[1.0, 0.2, 0.0], [0.2, 1.0, 0.1], [0.0, 0.1, 1.0]])
COVABS = np.array([[0.04, 0.01, 0.0], [0.01, 0.09, 0.0], [0.0, 0.0, 0.01]])
COVREL = np.array([[0.01, 0.002, 0.0], [0.002, 0.04, 0.0], [0.0, 0.0, 0.0025]])
ERRV = np.array([0.1, 0.2, 0.3])
SRC = {
    "s_abs": dict(kind="simple", err=ERRV, rho=0.0, rel=False),
    "s_abs_c": dict(kind="simple", err=0.2, rho=0.3, rel=False),
    "s_rel": dict(kind="simple", err=0.1, rho=0.0, rel=True),
    "s_rel_c": dict(kind="simple", err=ERRV, rho=0.3, rel=True),
    "m_cov": dict(kind="matrix", mat=COVABS, mtype="cov", rel=False),
    "m_cov_rel": dict(kind="matrix", mat=COVREL, mtype="cov", rel=True),
    "m_cor": dict(kind="matrix", mat=COR, mtype="cor", err=ERRV, rel=False),
    "m_cor_rel": dict(kind="matrix", mat=COR, mtype="cor", err=ERRV * 0.5, rel=True),
}


def spec_cov(spec, values):
    """(sigma sigma^T) o rho with a relative source's sigma = relative size x current values (signed reading, as the property states)"""
    v = np.asarray(values, dtype=float)
    if spec["kind"] == "simple":
        e = np.ones(N) * spec["err"]
        sig = e * v if spec["rel"] else e
        rho = np.full((N, N), spec["rho"]); np.fill_diagonal(rho, 1.0)
        return np.outer(sig, sig) * rho
    if spec["mtype"] == "cov":
        return spec["mat"] * np.outer(v, v) if spec["rel"] else spec["mat"]
    e = np.asarray(spec["err"], dtype=float)
    m = np.outer(e, e) * spec["mat"]
    return m * np.outer(v, v) if spec["rel"] else m


class Kind:
    """adapter: one container (and axis) + how to change its values + how to read"""

    def __init__(self, kind):
        self.kind = kind
        self.axis = None
        if kind == "indexed":
            self.c = IndexedContainer([1.0, 2.0, 4.0])
        elif kind in ("xy_y", "xy_x", "xy_data"):
            self.c = XYContainer([1.0, 2.0, 3.0], [2.0, -4.0, 5.0] if kind == "xy_y" else [2.0, 4.0, 5.0])
            self.axis = "x" if kind == "xy_x" else "y"
        elif kind == "xy_model_placeholder":
            pass
        elif kind in ("hist", "hist_rebin", "hist_set_bins"):
            self.c = HistContainer(3, (0.0, 3.0), fill_data=[0.5, 1.5, 1.6, 2.5, 2.6, 2.7])
        elif kind == "xy_model_x":
            self.c = XYParametricModel([1.0, 2.0, 3.0], lambda x, a, b: a * x + b, [1.0, 0.5])
            self.axis = "x"
        elif kind == "indexed_model":
            self.c = IndexedParametricModel(lambda a, b: a * np.arange(1, 4) + b, [1.0, 0.5], shape_like=np.zeros(3))
        elif kind == "xy_model":
            self.c = XYParametricModel([1.0, 2.0, 3.0], lambda x, a, b: a * x + b, [1.0, 0.5])
            self.axis = "y"
        elif kind == "hist_model":
            self.c = HistParametricModel(3, (0.0, 3.0), lambda x, a, b: a * x + b, [1.0, 0.5], bin_evaluation="rectangle")
        self.step = 0

    def values(self):
        c = self.c
        if self.kind.startswith("xy"):
            return np.asarray(c.x if self.axis == "x" else c.y, dtype=float)
        return np.asarray(c.data, dtype=float)

    def raw_values_no_read(self):
        """expected current values computed WITHOUT reading the container (reads must not matter)"""
        return self._expected

    def change(self):
        self.step += 1
        k, c, s = self.kind, self.c, self.step
        if k == "indexed":
            new = np.array([1.0, 2.0, 4.0]) * (1 + s); c.data = new
        elif k == "xy_y":
            new = np.array([2.0, -4.0, 5.0]) * (1 + s); c.y = new
        elif k == "xy_x":
            new = np.array([1.0, 2.0, 3.0]) * (1 + s); c.x = new
        elif k == "xy_data":
            new = np.array([2.0, 4.0, 5.0]) * (1 + s); c.data = [[1.0, 2.0, 3.0], list(new)]
        elif k == "hist":
            c.fill([0.2, 0.4, 1.1] * s); new = None
        elif k == "hist_rebin":          # same number of bins, other edges: the contents change
            c.rebin([[0.0, 1.55, 2.55, 3.0], [0.0, 0.6, 1.58, 3.0], [0.0, 1.0, 2.65, 3.0]][s % 3]); new = None
        elif k == "hist_set_bins":
            c.set_bins([2 + s, 1, 3 * s]); new = None
        elif k == "xy_model_x":
            new = np.array([1.0, 2.0, 3.0]) * (1 + s); c.x = new
        elif k.endswith("model"):
            c.parameters = [1.0 + s, 0.5 * (s + 1)]; new = None
        return new

    def add(self, name):
        sp = SRC[name]
        kw = dict(name=name, relative=sp["rel"])
        if sp["kind"] == "simple":
            a = (sp["err"],)
            kw["correlation"] = sp["rho"]
            f = self.c.add_error
        else:
            a = (sp["mat"], sp["mtype"])
            if "err" in sp:
                kw["err_val"] = sp["err"]
            f = self.c.add_matrix_error
        if self.axis:
            f(self.axis, *a, **kw)
        else:
            f(*a, **kw)

    def observe(self, which):
        c = self.c
        if self.axis:
            return {"err": lambda: getattr(c, self.axis + "_err"), "cov": lambda: getattr(c, self.axis + "_cov_mat"), "cor": lambda: getattr(c, self.axis + "_cor_mat"), "inv": lambda: getattr(c, self.axis + "_cov_mat_inverse")}[which]()
        return {"err": lambda: c.err, "cov": lambda: c.cov_mat, "cor": lambda: c.cor_mat, "inv": lambda: c.cov_mat_inverse}[which]()


KINDS = ["indexed", "xy_y", "xy_x", "xy_data", "hist", "indexed_model", "xy_model", "hist_model", "hist_rebin", "hist_set_bins", "xy_model_x"]
OPS = ["add:s_abs", "add:s_abs_c", "add:s_rel", "add:s_rel_c", "add:m_cov", "add:m_cov_rel", "add:m_cor", "add:m_cor_rel", "disable", "enable", "change", "read:err", "read:cov", "read:cor"]


def gen_hist(tier, seed):
    L = 4 if tier == "thorough" else 3
    for kind in KINDS:
        for ln in range(1, L + 1):
            for seq in itertools.product(OPS, repeat=ln):
                adds = [o for o in seq if o.startswith("add:")]
                if len(set(adds)) != len(adds) or not adds:
                    continue
                if ln == L and not any(o in ("change", "disable") or o.startswith("read") for o in seq):
                    continue
                if L == 4 and ln == 4 and len(adds) > 2:
                    continue
                yield {"kind": kind, "history": list(seq)}
        # deeper histories behind fixed prefixes: a source that is disabled while the values change and enabled again, a read before and after the change
        for pre in (["add:s_rel", "disable", "change", "enable"], ["add:s_abs", "add:m_cov_rel", "disable", "change", "enable"], ["add:s_rel_c", "read:cov", "disable", "change", "read:cov", "enable"], ["add:m_cor_rel", "read:err", "change"]):
            for ln in range(0, 3 if tier == "thorough" else 2):
                for seq in itertools.product(OPS, repeat=ln):
                    adds_ = [o for o in seq if o.startswith("add:")]
                    if any(o in pre for o in adds_) or len(set(adds_)) != len(adds_):          # (a source name can be registered once)
                        continue
                    yield {"kind": kind, "history": pre + list(seq)}


@R.oracle("total_is_sum_of_enabled_sources", gen_hist, obligation="")
def hist(inp):
    k = Kind(inp["kind"])
    srcs, enabled = [], {}
    for op in inp["history"]:
        if op.startswith("add:"):
            nm = op[4:]
            k.add(nm); srcs.append(nm); enabled[nm] = True
        elif op == "disable":
            on = [s for s in srcs if enabled[s]]
            if on:
                k.c.disable_error(on[0]); enabled[on[0]] = False
        elif op == "enable":
            off = [s for s in srcs if not enabled[s]]
            if off:
                k.c.enable_error(off[0]); enabled[off[0]] = True
        elif op == "change":
            k.change()
        elif op.startswith("read:"):
            k.observe(op[5:])
    # final comparison; the total is read BEFORE the values so that a lazily recomputed container is not helped by the oracle's own read
    got = {w: k.observe(w) for w in ("cov", "err")}
    vals = k.values()
    exp_cov = sum((spec_cov(SRC[s], vals) for s in srcs if enabled[s]), np.zeros((N, N)))
    last = [o for o in inp["history"] if not o.startswith("read")][-1]
    rel_on = any(SRC[s]["rel"] for s in srcs if enabled[s])
    if not np.allclose(got["cov"], exp_cov, rtol=1e-10, atol=1e-14):
        return {"got": np.asarray(got["cov"]), "expected": exp_cov, "witness_class": f"{inp['kind']}:cov:after:{last.split(':')[0]}" + (":relative-source" if rel_on else "")}
    if not np.allclose(got["err"], np.sqrt(np.diag(exp_cov)), rtol=1e-10, atol=1e-14):
        return {"got": np.asarray(got["err"]), "expected": np.sqrt(np.diag(exp_cov)), "witness_class": f"{inp['kind']}:err:after:{last.split(':')[0]}"}
    if not np.allclose(np.asarray(got["cov"]), np.asarray(got["cov"]).T):
        return {"got": "not symmetric", "expected": "symmetric", "witness_class": "symmetry"}
    d = np.sqrt(np.diag(exp_cov))
    if np.all(d > 0):
        cor = k.observe("cor")
        if not np.allclose(cor, exp_cov / np.outer(d, d), rtol=1e-9, atol=1e-12):
            return {"got": np.asarray(cor), "expected": exp_cov / np.outer(d, d), "witness_class": f"{inp['kind']}:cor"}
        if np.linalg.cond(exp_cov) < 1e8:
            inv = k.observe("inv")
            if inv is None or not np.allclose(np.asarray(inv) @ exp_cov, np.eye(N), atol=1e-7):
                return {"got": None if inv is None else np.asarray(inv), "expected": "inverse of the total", "witness_class": f"{inp['kind']}:inverse"}
        if np.min(np.linalg.eigvalsh(exp_cov)) < -1e-12:
            return {"got": "negative eigenvalue", "expected": "positive semi-definite", "witness_class": "psd"}
    R.cover(inp["kind"])


def gen_toggle(tier, seed):
    for kind in KINDS:
        for a, b in itertools.permutations(list(SRC), 2):
            yield {"kind": kind, "sources": [a, b]}


@R.oracle("disable_enable_restores_exactly", gen_toggle, obligation="disable_error")
def toggle(inp):
    k = Kind(inp["kind"])
    for s in inp["sources"]:
        k.add(s)
    before = np.array(k.observe("cov"))
    k.c.disable_error(inp["sources"][0])
    mid = np.array(k.observe("cov"))
    k.c.enable_error(inp["sources"][0])
    after = np.array(k.observe("cov"))
    if not np.array_equal(before, after):
        return {"got": after, "expected": before, "witness_class": "not-restored"}
    if not np.allclose(mid, spec_cov(SRC[inp["sources"][1]], k.values())):
        return {"got": mid, "expected": "only the second source", "witness_class": "disabled-source-contributes"}


def gen_copy(tier, seed):
    for kind in ("indexed", "xy_y", "xy_x", "xy_data", "hist"):
        for a in SRC:
            for read_first in (False, True):
                yield {"kind": kind, "sources": [a], "read_before_copy": read_first}
        for a, b in (("s_rel", "m_cov"), ("m_cor_rel", "s_abs_c"), ("s_abs", "m_cov_rel")):
            yield {"kind": kind, "sources": [a, b], "read_before_copy": False}


@R.oracle("a_copy_has_its_own_reference", gen_copy, obligation="")
def copy_oracle(inp):
    """a deep copy of a container (what XYFit / IndexedFit / HistFit keep of the container they are given) is a container of its own: its total follows ITS values,
    not those the original takes later"""
    import copy
    k = Kind(inp["kind"])
    for s_ in inp["sources"]:
        k.add(s_)
    if inp["read_before_copy"]:
        k.observe("cov")
    k2 = Kind(inp["kind"])
    k2.c = copy.deepcopy(k.c)
    k2.axis = k.axis
    vals_copy = k2.values()
    k.change()                           # the ORIGINAL takes other values
    got = np.asarray(k2.observe("cov"))
    exp = sum((spec_cov(SRC[s_], vals_copy) for s_ in inp["sources"]), np.zeros((N, N)))
    if not np.allclose(k2.values(), vals_copy):
        return {"got": k2.values(), "expected": vals_copy, "witness_class": f"{inp['kind']}:copy-values-follow-the-original"}
    if not np.allclose(got, exp, rtol=1e-10, atol=1e-14):
        return {"got": got, "expected": exp, "witness_class": f"{inp['kind']}:copy-total-follows-the-original"}
    k2.change(); k2.change()            # and the copy's own changes are seen by the copy (and not by the original)
    got2, exp2 = np.asarray(k2.observe("cov")), sum((spec_cov(SRC[s_], k2.values()) for s_ in inp["sources"]), np.zeros((N, N)))
    if not np.allclose(got2, exp2, rtol=1e-10, atol=1e-14):
        return {"got": got2, "expected": exp2, "witness_class": f"{inp['kind']}:copy-total-after-own-change"}
    got3, exp3 = np.asarray(k.observe("cov")), sum((spec_cov(SRC[s_], k.values()) for s_ in inp["sources"]), np.zeros((N, N)))
    if not np.allclose(got3, exp3, rtol=1e-10, atol=1e-14):
        return {"got": got3, "expected": exp3, "witness_class": f"{inp['kind']}:original-total-after-copy-changed"}
    R.cover("copy:" + inp["kind"])


def gen_both_axes(tier, seed):
    names = ["s_abs", "s_rel", "s_rel_c", "m_cov_rel", "m_cor_rel"]
    for a in names:
        for b in names:
            for order in ("x-first", "y-first"):
                for change in ("data", "x", "y"):
                    yield {"x_source": a, "y_source": b, "order": order, "change": change}


@R.oracle("xy_sources_follow_their_own_axis", gen_both_axes, obligation="")
def both_axes(inp):
    """an xy container with sources on BOTH axes: after any value change each axis total is the sum of that axis' sources at that axis' current values"""
    c = XYContainer([1.0, 2.0, 3.0], [2.0, -4.0, 5.0])

    def add(axis, nm):
        sp = SRC[nm]
        if sp["kind"] == "simple":
            c.add_error(axis, sp["err"], name=axis + nm, correlation=sp["rho"], relative=sp["rel"])
        else:
            c.add_matrix_error(axis, sp["mat"], sp["mtype"], name=axis + nm, relative=sp["rel"], **({"err_val": sp["err"]} if "err" in sp else {}))
    for axis in (("x", "y") if inp["order"] == "x-first" else ("y", "x")):
        add(axis, inp[axis + "_source"])
    _ = c.x_cov_mat, c.y_cov_mat                       # caches filled before the change
    nx, ny = np.array([1.5, 2.5, 4.0]), np.array([3.0, -1.0, 7.0])
    if inp["change"] == "data":
        c.data = [list(nx), list(ny)]
    elif inp["change"] == "x":
        c.x = nx; ny = np.array([2.0, -4.0, 5.0])
    else:
        c.y = ny; nx = np.array([1.0, 2.0, 3.0])
    for axis, vals in (("x", nx), ("y", ny)):
        got, exp = np.asarray(getattr(c, axis + "_cov_mat")), spec_cov(SRC[inp[axis + "_source"]], vals)
        if not np.allclose(got, exp, rtol=1e-10, atol=1e-14):
            return {"got": got, "expected": exp, "witness_class": f"xy-both-axes:{axis}-total-after-{inp['change']}-assignment"}
    R.cover("both-axes:" + inp["change"])


sys.exit(R.main())
