"""Native side of C15 (bounded stand-in, never counted as proved): the symmetry relations themselves on real fits.
No expected numbers: each case fits a problem and its relabelled twin and compares."""
import itertools, sys, math
from common import parse, Runner, imp

args = parse()
import numpy as np
kafe2 = imp("kafe2")
util = imp("kafe2.fit.util")
XYFit = kafe2.XYFit
R = Runner("C15", args, scope="2 back ends x {quadratic, power law} x permutations of points (correlated covariance) x all 6 orders of 3 parameters x {none, fixed, limited, constrained} "
                              "x y-scale {1e-6, 1e-3, 0.3, 7, 1e4}; is_diagonal under rescaling",
           rule="twin fits compared; values within 10% of their uncertainty (optimiser tolerance), uncertainties within 5% (numerical second derivatives), chi2 within 1e-4 relative")

R.shards = 7
X = np.array([0.3, 1.1, 1.9, 3.2, 4.0, 5.3, 6.1])
Y = np.array([1.3, 2.2, 3.9, 6.1, 9.8, 14.9, 21.7])
ERR = np.array([0.3, 0.25, 0.4, 0.5, 0.45, 0.6, 0.8])
rng = np.random.RandomState(7)
_B = rng.normal(size=(7, 3)) * 0.15
COV = _B @ _B.T                      # correlated part, rank 3
XERR = 0.05


def close(a, b, sig, what):
    a, b, sig = np.asarray(a, float), np.asarray(b, float), np.asarray(sig, float)
    if not np.all(np.abs(a - b) <= 0.1 * np.abs(sig) + 1e-9 * (np.abs(a) + np.abs(b))):
        return {"got": a, "expected": b, "witness_class": what}


def rel(a, b, tol, what):
    a, b = np.asarray(a, float), np.asarray(b, float)
    if not np.allclose(a, b, rtol=tol, atol=0):
        return {"got": a, "expected": b, "witness_class": what}


def quad_abc(x, a=1.0, b=0.5, c=0.2):
    return a * x * x + b * x + c


PERM_FUNCS = {
    ("a", "b", "c"): quad_abc,
    ("a", "c", "b"): lambda x, a=1.0, c=0.2, b=0.5: a * x * x + b * x + c,
    ("b", "a", "c"): lambda x, b=0.5, a=1.0, c=0.2: a * x * x + b * x + c,
    ("b", "c", "a"): lambda x, b=0.5, c=0.2, a=1.0: a * x * x + b * x + c,
    ("c", "a", "b"): lambda x, c=0.2, a=1.0, b=0.5: a * x * x + b * x + c,
    ("c", "b", "a"): lambda x, c=0.2, b=0.5, a=1.0: a * x * x + b * x + c,
}


def build(backend, func, order=None, scale=1.0, xerr=False):
    idx = np.arange(len(X)) if order is None else np.asarray(order)
    fit = XYFit([X[idx], Y[idx] * scale], func, minimizer=backend)
    fit.add_error("y", ERR[idx] * scale)
    fit.add_matrix_error("y", (COV[np.ix_(idx, idx)]) * scale * scale, matrix_type="cov")
    if xerr:
        fit.add_error("x", XERR)
    return fit


def summary(fit):
    fit.do_fit()
    names = list(fit.parameter_names)
    return {"names": names, "v": dict(zip(names, fit.parameter_values)), "e": dict(zip(names, fit.parameter_errors)),
            "C": {(p, q): fit.parameter_cov_mat[i][j] for i, p in enumerate(names) for j, q in enumerate(names)},
            "cost": fit.cost_function_value, "ndf": fit.ndf, "gof": fit.goodness_of_fit, "p": fit.chi2_probability}


def compare(s, t, what, scale_of=None, scale=1.0, cost=True):
    """t is the relabelled twin of s; scale_of: names carrying the unit of y"""
    f = lambda n: scale if scale_of and n in scale_of else 1.0
    for n in s["names"]:
        sig = s["e"][n] * f(n) if s["e"][n] else 1.0
        r = close(t["v"][n], s["v"][n] * f(n), sig, what + ":value:" + n) or rel(t["e"][n], s["e"][n] * f(n), 5e-2, what + ":error:" + n) if s["e"][n] else \
            close(t["v"][n], s["v"][n] * f(n), 1e-6, what + ":fixed-value:" + n)
        if r:
            return r
    for (p, q), c in s["C"].items():
        ref = c * f(p) * f(q)
        if abs(t["C"][(p, q)] - ref) > 5e-2 * abs(s["e"][p] * s["e"][q] * f(p) * f(q)) + 1e-300:
            return {"got": t["C"][(p, q)], "expected": ref, "witness_class": what + f":cov:{p},{q}"}
    if s["ndf"] != t["ndf"]:
        return {"got": t["ndf"], "expected": s["ndf"], "witness_class": what + ":ndf"}
    for key in (("cost", "gof") if cost else ("gof",)):        # the full cost may carry log-determinant terms, which shift by a constant under rescaling; chi2 = goodness_of_fit does not
        if abs(s[key] - t[key]) > 1e-4 * max(1.0, abs(s[key])):
            return {"got": t[key], "expected": s[key], "witness_class": what + ":" + key}
    if abs(s["p"] - t["p"]) > 1e-4:
        return {"got": t["p"], "expected": s["p"], "witness_class": what + ":chi2_probability"}


# ------------------------------------------------------------------ 1. permutation of the data points
def gen_points(tier, seed):
    perms = [list(reversed(range(7))), [3, 0, 6, 1, 5, 2, 4], [1, 0, 2, 3, 4, 5, 6], [6, 1, 2, 3, 4, 5, 0]]
    if tier == "thorough":
        r = np.random.RandomState(seed)
        perms += [list(r.permutation(7)) for _ in range(12)]
    for backend in ("iminuit", "scipy"):
        for xerr in (False, True):
            for perm in perms:
                yield {"backend": backend, "perm": [int(p) for p in perm], "xerr": xerr}


@R.oracle("point_permutation", gen_points, obligation="end-to-end:points")
def points(inp):
    a, b = build(inp["backend"], quad_abc, xerr=inp["xerr"]), build(inp["backend"], quad_abc, order=inp["perm"], xerr=inp["xerr"])
    # the cost at a common parameter point, before any optimiser runs: exact up to rounding
    for pv in ([1.0, 0.5, 0.2], [0.4, -1.0, 3.0]):
        a.set_all_parameter_values(pv); b.set_all_parameter_values(pv)
        if abs(a.cost_function_value - b.cost_function_value) > 1e-9 * abs(a.cost_function_value):
            return {"got": b.cost_function_value, "expected": a.cost_function_value, "witness_class": "points:cost-at-fixed-parameters"}
    return compare(summary(a), summary(b), "points")


# ------------------------------------------------------------------ 2. permutation of the parameter list
def gen_pars(tier, seed):
    for backend in ("iminuit", "scipy"):
        for order in PERM_FUNCS:
            for mode in ("none", "fix:a", "fix:b", "fix:c", "limit:a", "limit:c", "constrain:b", "constrain:a,c", "fix:c+limit:a", "fix:a+constrain:b"):
                if tier == "quick" and order == ("a", "b", "c"):
                    continue
                yield {"backend": backend, "order": list(order), "mode": mode}


def apply_mode(fit, mode):
    for part in mode.split("+"):
        if part == "none":
            continue
        kind, names = part.split(":")
        names = names.split(",")
        if kind == "fix":
            fit.fix_parameter(names[0], {"a": 0.55, "b": 0.3, "c": 0.9}[names[0]])
        elif kind == "limit":
            fit.limit_parameter(names[0], *{"a": (0.0, 5.0), "c": (-4.0, 4.0)}[names[0]])
        elif kind == "constrain" and len(names) == 1:
            fit.add_parameter_constraint(names[0], 0.4, 0.1)
        else:
            fit.add_matrix_parameter_constraint(names, [0.5, 1.0], [[0.04, 0.01], [0.01, 0.09]])


@R.oracle("parameter_permutation", gen_pars, obligation="end-to-end:parameters")
def pars(inp):
    a = build(inp["backend"], quad_abc)
    b = build(inp["backend"], PERM_FUNCS[tuple(inp["order"])])
    if list(b.parameter_names) != inp["order"]:
        return {"got": list(b.parameter_names), "expected": inp["order"], "witness_class": "parameters:names"}
    apply_mode(a, inp["mode"]); apply_mode(b, inp["mode"])
    s, t = summary(a), summary(b)
    r = compare(s, t, "parameters:" + inp["mode"].split(":")[0])
    if r:
        return r
    # asymmetric errors and the error band follow the names as well
    ea, eb = a.asymmetric_parameter_errors, b.asymmetric_parameter_errors
    for i, n in enumerate(s["names"]):
        j = t["names"].index(n)
        if not np.allclose(ea[i], eb[j], rtol=3e-2, atol=1e-3 * max(s["e"][n], 1e-12)):
            return {"got": eb[j], "expected": ea[i], "witness_class": "parameters:asymmetric:" + inp["mode"].split(":")[0]}
    xs = np.array([0.0, 2.5, 7.0])
    if not np.allclose(a.error_band(xs), b.error_band(xs), rtol=1e-2):
        return {"got": b.error_band(xs), "expected": a.error_band(xs), "witness_class": "parameters:band"}


def gen_multi_order(tier, seed):
    for backend in ("iminuit", "scipy"):
        for shared in ("a", "a+c"):
            yield {"backend": backend, "shared": shared}


@R.oracle("member_parameter_order_in_a_multi_fit", gen_multi_order, obligation="end-to-end:parameters")
def multi_order(inp):
    """a member of a multi-fit lists its parameters in its own order: values, uncertainties, covariance entries and the error band of the member belong to the
    parameter NAMES, whichever order the member's model function declares them in"""
    MultiFit = imp("kafe2").MultiFit

    def f0(x, a=1.0, b=0.5):
        return a * x + b

    def f1_ca(x, c=0.3, a=1.0):
        return a * x + c * x * x

    def f1_ac(x, a=1.0, c=0.3):
        return a * x + c * x * x
    x0, y0 = np.array([0.0, 1.0, 2.0, 3.0, 4.0]), np.array([0.6, 1.4, 2.7, 3.4, 4.6])
    x1, y1 = np.array([0.5, 1.5, 2.5, 3.5]), np.array([0.7, 2.3, 4.6, 7.1])
    out = []
    for f1 in (f1_ca, f1_ac):
        m0 = XYFit([x0, y0], f0, minimizer=inp["backend"]); m0.add_error("y", 0.2)
        m1 = XYFit([x1, y1], f1, minimizer=inp["backend"]); m1.add_error("y", np.array([0.1, 0.2, 0.3, 0.4]))
        mf = MultiFit([m0, m1], minimizer=inp["backend"])
        if inp["shared"] == "a+c":
            mf.add_parameter_constraint("c", 0.3, 0.2)
        mf.do_fit()
        names = list(m1.parameter_names)
        multi = dict(zip(mf.parameter_names, mf.parameter_errors))
        out.append({"names": names, "v": dict(zip(names, m1.parameter_values)), "e": dict(zip(names, m1.parameter_errors)),
                    "C": {(p_, q_): m1.parameter_cov_mat[i][j] for i, p_ in enumerate(names) for j, q_ in enumerate(names)}, "band": np.asarray(m1.error_band(np.array([0.0, 1.0, 2.0, 4.0]))), "multi_e": multi})
    s, t = out
    for n_ in ("a", "c"):
        if not np.isclose(s["e"][n_], s["multi_e"][n_], rtol=1e-6):
            return {"got": s["e"], "expected": {k_: s["multi_e"][k_] for k_ in ("a", "c")}, "witness_class": "multi-order:member-uncertainty-is-not-the-multi-fit's-for-that-name"}
        if not np.isclose(s["v"][n_], t["v"][n_], rtol=2e-3, atol=1e-6) or not np.isclose(s["e"][n_], t["e"][n_], rtol=2e-2):
            return {"got": {"v": t["v"], "e": t["e"]}, "expected": {"v": s["v"], "e": s["e"]}, "witness_class": "multi-order:values-or-uncertainties-depend-on-the-declared-order"}
    for k_ in s["C"]:
        if not np.isclose(s["C"][k_], t["C"][k_], rtol=3e-2, atol=1e-8):
            return {"got": t["C"][k_], "expected": s["C"][k_], "witness_class": "multi-order:covariance"}
    if not np.allclose(s["band"], t["band"], rtol=2e-2, atol=1e-8):
        return {"got": t["band"], "expected": s["band"], "witness_class": "multi-order:band"}


def gen_antider_order(tier, seed):
    for backend in ("scipy", "iminuit"):
        yield {"backend": backend}


@R.oracle("antiderivative_parameters_follow_the_names", gen_antider_order, obligation="end-to-end:parameters")
def antider_order(inp):
    """a histogram fit whose bin contents come from an antiderivative: the density may list its parameters in any order - the results belong to the NAMES; an antiderivative that
    lists them in ANOTHER order than its density is called with the wrong values and has to be refused"""
    k2 = imp("kafe2")
    from math import erf
    cdf = np.vectorize(lambda x, mu, sigma: 0.5 * (1 + erf((x - mu) / (sigma * np.sqrt(2)))))
    raw = np.random.RandomState(3).normal(2.2, 0.55, 400)

    def dens_ms(x, mu=2.0, sigma=0.6):
        return np.exp(-0.5 * ((x - mu) / sigma) ** 2) / np.sqrt(2 * np.pi) / sigma

    def dens_sm(x, sigma=0.6, mu=2.0):
        return np.exp(-0.5 * ((x - mu) / sigma) ** 2) / np.sqrt(2 * np.pi) / sigma
    anti_ms = lambda x, mu, sigma: cdf(x, mu, sigma)
    anti_sm = lambda x, sigma, mu: cdf(x, mu, sigma)
    res = {}
    for label, dens, anti in (("mu,sigma", dens_ms, anti_ms), ("sigma,mu", dens_sm, anti_sm)):
        f = k2.HistFit(k2.HistContainer(10, (0.5, 4.0), fill_data=raw), dens, bin_evaluation=anti, minimizer=inp["backend"])
        f.do_fit()
        res[label] = (dict(zip(f.parameter_names, f.parameter_values)), dict(zip(f.parameter_names, f.parameter_errors)), float(f.cost_function_value))
    a, b = res["mu,sigma"], res["sigma,mu"]
    for n_ in ("mu", "sigma"):
        if not np.isclose(a[0][n_], b[0][n_], rtol=2e-3, atol=1e-6) or not np.isclose(a[1][n_], b[1][n_], rtol=3e-2):
            return {"got": b[:2], "expected": a[:2], "witness_class": "antiderivative-order:results-depend-on-the-declared-order"}
    try:
        f = k2.HistFit(k2.HistContainer(10, (0.5, 4.0), fill_data=raw), dens_sm, bin_evaluation=anti_ms, minimizer=inp["backend"])
    except (ValueError, TypeError):
        return None
    f.do_fit()
    got = dict(zip(f.parameter_names, f.parameter_values))
    if not np.isclose(got["mu"], a[0]["mu"], rtol=2e-3) or not np.isclose(got["sigma"], a[0]["sigma"], rtol=2e-3):
        return {"got": got, "expected": a[0], "witness_class": "antiderivative-order:mismatched-order-accepted-and-values-land-on-the-wrong-names"}


# ------------------------------------------------------------------ 3. unit of y
def power(x, A0=0.5, p=2.0, off=1.0):        # A0 and off carry the unit of y, the exponent is unit-free
    return A0 * x ** p + off


def gen_scale(tier, seed):
    for backend in ("iminuit", "scipy"):
        for model in ("quad", "power"):
            for scale in (1e-6, 1e-3, 0.3, 7.0, 1e4):
                for mode in ("none", "fix", "limit"):
                    yield {"backend": backend, "model": model, "scale": scale, "mode": mode}


@R.oracle("y_unit_rescaling", gen_scale, obligation="end-to-end:units")
def units(inp):
    s_ = inp["scale"]
    if inp["model"] == "quad":
        f, g, scaled = quad_abc, quad_abc, {"a", "b", "c"}
        start = {"a": 1.0, "b": 0.5, "c": 0.2}
    else:
        f, g, scaled = power, power, {"A0", "off"}
        start = {"A0": 0.5, "p": 2.0, "off": 1.0}
    a, b = build(inp["backend"], f), build(inp["backend"], g, scale=s_)
    b.set_parameter_values(**{n: v * (s_ if n in scaled else 1.0) for n, v in start.items()})       # the same starting point expressed in the new unit
    first = list(start)[0]
    if inp["mode"] == "fix":
        a.fix_parameter(first, start[first] * 1.1); b.fix_parameter(first, start[first] * 1.1 * s_)
    elif inp["mode"] == "limit":
        a.limit_parameter(first, 0.0, start[first] * 50); b.limit_parameter(first, 0.0, start[first] * 50 * s_)
    return compare(summary(a), summary(b), f"units:{inp['backend']}:{'scale-within-10x' if 0.1 <= s_ <= 10 else 'scale-beyond-1000x'}:" + inp["model"], scale_of=scaled, scale=s_, cost=False)


# ------------------------------------------------------------------ 4. is_diagonal is a statement about exact zeros
def gen_diag(tier, seed):
    for scale in (1.0, 1e-4, 1e-6, 1e-12, 1e6):
        for kind in ("diag", "weak-offdiag", "offdiag"):
            yield {"scale": scale, "kind": kind}


@R.oracle("is_diagonal_scale_free", gen_diag, obligation="is_diagonal")
def diag(inp):
    M = np.diag([1.0, 2.0, 3.0])
    if inp["kind"] == "weak-offdiag":
        M[0, 2] = M[2, 0] = 1e-3
    elif inp["kind"] == "offdiag":
        M[0, 1] = M[1, 0] = 0.7
    got = bool(util.is_diagonal(M * inp["scale"]))
    if got != (inp["kind"] == "diag"):
        return {"got": got, "expected": inp["kind"] == "diag", "witness_class": "is_diagonal:" + inp["kind"]}


sys.exit(R.main())
