"""Native side of C17 (bounded): displayed numbers are parsed back with exact decimal arithmetic and compared with the held ones.
Decimal positions: a displayed number with k digits after the point has last-digit unit 10^-k (mantissa exponents are taken into account)."""
import io, itertools, os, re, sys, tempfile, warnings
from decimal import Decimal
from fractions import Fraction
from common import parse, Runner, imp

args = parse()
import numpy as np
warnings.simplefilter("ignore")
kafe2 = imp("kafe2")
fmt = imp("kafe2.fit._base.format")
tools = imp("kafe2.tools")
XYFit, IndexedFit, HistFit, UnbinnedFit, CustomFit, HistContainer = kafe2.XYFit, kafe2.IndexedFit, kafe2.HistFit, kafe2.UnbinnedFit, kafe2.CustomFit, kafe2.HistContainer
R = Runner("C17", args, scope="ParameterFormatter.get_formatted over mantissas x 10^-8..10^8 for value and uncertainty (carry cases 0.0996, 9.96, 0.99995; zero and negative values; value << and >> uncertainty; asymmetric "
                              "uncertainties of different magnitude; fixed) x 1-4 significant digits x plain / LaTeX; report, compact summary and result dictionary of 5 fit types parsed back",
           rule="grid enumeration; exact decimal comparison")
R.shards = 6

NUM = r"[-+]?(?:\d+\.?\d*|\.\d+)(?:[eE][-+]?\d+)?"


def unit_of(text):
    """(value as Fraction, unit of the last displayed digit as Fraction)"""
    t = text.strip()
    m = re.fullmatch(r"([-+]?)(\d*)\.?(\d*)(?:[eE]([-+]?\d+))?", t)
    if not m:
        raise ValueError("not a number: %r" % text)
    exp = int(m.group(4) or 0)
    frac_digits = len(m.group(3))
    return Fraction(Decimal(t)), Fraction(10) ** (exp - frac_digits)


def sig_digits(text):
    t = text.strip().lstrip("+-")
    mant = re.split(r"[eE]", t)[0]
    digits = mant.replace(".", "").lstrip("0")
    return len(digits) if digits else (len(mant.replace(".", "")) if Fraction(Decimal(t)) == 0 else 0)


def from_latex(s):
    s = s.replace("$", "").replace("{", "").replace("}", "")
    return re.sub(r"\\times10\^(-?\d+)", r"e\1", s)


MANT = [1.0, 1.04, 1.05, 1.4999, 1.5, 2.0, 2.345, 4.449, 4.45, 5.0, 7.77, 9.4, 9.5, 9.94, 9.95, 9.96, 9.994, 9.995, 9.99949, 9.9995, 9.99995]


def gen_par(tier, seed):
    exps_e = (-8, -5, -3, -2, -1, 0, 1, 2, 4, 7)
    exps_v = (-7, -3, -1, 0, 1, 3, 6)
    mant_v = (0.0, 1.0, 1.2345678, 9.9951, 9.996, 0.99949, 5.5, -3.14159, -9.9996)
    k = 0
    for n in (1, 2, 3, 4):
        for me in MANT:
            for ee in exps_e:
                for mv in mant_v:
                    for ev in exps_v:
                        k += 1
                        if tier == "quick" and (k + n) % 7:
                            continue
                        yield {"value": mv * 10.0 ** ev, "error": me * 10.0 ** ee, "n": n, "latex": bool(k % 2), "mode": "symmetric"}
    rng = np.random.RandomState(seed)
    for _ in range(400 if tier == "quick" else 4000):
        n = int(rng.randint(1, 5))
        v = float(rng.choice([-1, 1]) * 10 ** rng.uniform(-6, 6))
        up, dn = float(10 ** rng.uniform(-6, 4)), float(10 ** rng.uniform(-6, 4))
        yield {"value": v, "error": max(up, dn), "up": up, "down": dn, "n": n, "latex": bool(rng.randint(2)), "mode": "asymmetric"}
    for v in (0.0, 1.5, -2.25e-5, 1e9):
        for latex in (False, True):
            yield {"value": v, "error": 0.3, "n": 2, "latex": latex, "mode": "fixed"}


def pow10_floor(x):
    """largest k with 10^k <= x (x > 0, exact)"""
    k = 0
    while Fraction(10) ** k > x:
        k -= 1
    while Fraction(10) ** (k + 1) <= x:
        k += 1
    return k


def check_pair(vtxt, etxt, value, error, n, tag):
    """value +/- error: error = true error rounded to n significant digits (trailing zeros may be dropped by the notation); |shown value - value| <= half a unit of the
    uncertainty's n-th significant digit; value shown at least down to that digit when |value| >= error"""
    e_shown, e_unit_txt = unit_of(etxt)
    v_shown, v_unit = unit_of(vtxt)
    E, Vt = Fraction(error), Fraction(value)
    if e_shown <= 0:
        return {"got": etxt, "expected": f"{error!r} rounded to {n} significant digits", "witness_class": tag + ":uncertainty-not-a-rounding"}
    e_unit = Fraction(10) ** (pow10_floor(e_shown) - n + 1)
    if abs(e_shown - E) > e_unit / 2 or (e_shown / e_unit).denominator != 1:
        return {"got": etxt, "expected": f"{error!r} rounded to {n} significant digits", "witness_class": tag + f":uncertainty-not-a-rounding:n={n}"}
    if abs(v_shown - Vt) > e_unit / 2:
        return {"got": f"{vtxt} +/- {etxt}", "expected": f"value {value!r} within half a unit ({float(e_unit / 2):g}) of the uncertainty's last digit", "witness_class": tag + f":value-off:n={n}"}
    if abs(Vt) >= E and v_unit > e_unit and (v_shown / e_unit).denominator != 1:
        return {"got": f"{vtxt} +/- {etxt}", "expected": "value shown down to the uncertainty's last digit", "witness_class": tag + f":value-too-coarse:n={n}"}
    if abs(Vt) >= E and v_unit > e_unit and abs(v_shown - Vt) > 0 and "latex" not in tag:      # (LaTeX output drops trailing zeros of a mantissa in front of x10^k: the number shown is still the rounding at the uncertainty's digit)
        return {"got": f"{vtxt} +/- {etxt}", "expected": "value shown down to the uncertainty's last digit", "witness_class": tag + f":value-too-coarse:n={n}"}


@R.oracle("parameter_string_is_faithful_rounding", gen_par, obligation="ParameterFormatter.get_formatted / ScalarFormatter")
def par(inp):
    mode, n, latex = inp["mode"], inp["n"], inp["latex"]
    if mode == "asymmetric":
        pf = fmt.ParameterFormatter("a", value=inp["value"], error=inp["error"], asymmetric_error=(-inp["down"], inp["up"]), name="a", latex_name="a")
    else:
        pf = fmt.ParameterFormatter("a", value=inp["value"], error=inp["error"], name="a", latex_name="a")
    if mode == "fixed":
        pf.fixed = True
    s = pf.get_formatted(with_name=False, n_significant_digits=n, asymmetric_error=(mode == "asymmetric"), format_as_latex=latex)
    t = from_latex(s) if latex else s
    tag = mode + (":latex" if latex else "")
    if mode == "fixed":
        if "fixed" not in t:
            return {"got": s, "expected": "marked as fixed", "witness_class": tag + ":not-marked"}
        m = re.match(r"\s*(" + NUM + ")", t)
        v_shown, v_unit = unit_of(m.group(1))
        if abs(v_shown - Fraction(inp["value"])) > v_unit / 2:
            return {"got": s, "expected": repr(inp["value"]), "witness_class": tag + ":value"}
        return None
    try:
        if mode == "symmetric":
            m = re.fullmatch(r"\s*(" + NUM + r")\s*(?:\+/-|\\pm)\s*(" + NUM + r")\s*", t)
            return check_pair(m.group(1), m.group(2), inp["value"], inp["error"], n, tag)
        m = re.fullmatch(r"\s*(" + NUM + r")\s*\+\s*(" + NUM + r")\s*\(up\)\s*-\s*(" + NUM + r")\s*\(down\)\s*", t) if not latex else re.fullmatch(r"\s*(" + NUM + r")\^\+(" + NUM + r")_-(" + NUM + r")\s*", t)
        vtxt, utxt, dtxt = m.group(1), m.group(2), m.group(3)
        small, small_txt, big, big_txt = (inp["down"], dtxt, inp["up"], utxt) if inp["down"] <= inp["up"] else (inp["up"], utxt, inp["down"], dtxt)
        r = check_pair(vtxt, small_txt, inp["value"], small, n, tag + ":smaller")
        if r:
            return r
        b_shown, b_unit = unit_of(big_txt)
        s_unit = unit_of(small_txt)[1]
        if abs(b_shown - Fraction(big)) > max(b_unit, s_unit) / 2:
            return {"got": s, "expected": f"larger uncertainty {big!r} rounded", "witness_class": tag + ":larger-uncertainty-not-a-rounding"}
    except AttributeError:
        return {"got": s, "expected": "value +/- uncertainty", "witness_class": tag + ":unparsable"}


# ------------------------------------------------------------------ report, compact summary, result dictionary
X = np.array([0.5, 1.5, 2.5, 3.5, 4.5, 5.5])
Y = np.array([1.2, 2.9, 5.3, 7.0, 9.4, 10.6])
RAW = [round(float(v), 3) for v in np.linspace(-2.6, 2.9, 50) ** 3 / 8.0]


def quad(x, a=1.0, b=0.5, c=0.1):
    return a * x * x * 0.1 + b * x + c


def iquad(a=1.0, b=0.5, c=0.1):
    return a * np.arange(6) ** 2 * 0.1 + b * np.arange(6) + c


def normal(x, mu=0.1, sigma=1.2):
    return np.exp(-0.5 * ((x - mu) / sigma) ** 2) / np.sqrt(2.0 * np.pi * sigma ** 2)


def custom_cost(a=0.3, b=1.0, c=0.4):
    return (a - 0.7) ** 2 / 0.04 + (b + 0.2) ** 2 / 0.09 + (c - 1.1) ** 2 / 0.25 + 0.5 * a * b


def make(kind, scale, setup):
    if kind == "xy-large":          # parameters (and their uncertainties) of the size of the data: uncertainties of 100 and more
        f = XYFit([X, Y * scale], quad); f.add_error("y", 0.4 * scale)
    elif kind == "xy":
        f = XYFit([X, Y * scale], lambda x, a=1.0, b=0.5, c=0.1: scale * (a * x * x * 0.1 + b * x + c)); f.add_error("y", 0.4 * scale)
    elif kind == "indexed":
        f = IndexedFit(Y * scale, lambda a=1.0, b=0.5, c=0.1: scale * (a * np.arange(6) ** 2 * 0.1 + b * np.arange(6) + c)); f.add_error(0.4 * scale)
    elif kind == "hist":
        f = HistFit(HistContainer(8, (-3, 3), fill_data=RAW), normal)
    elif kind == "unbinned":
        f = UnbinnedFit(RAW, normal)
    else:
        f = CustomFit(custom_cost)
    if setup == "fixed":
        f.fix_parameter(f.parameter_names[-1], 0.7)
    elif setup == "fixed-then-released":
        f.fix_parameter(f.parameter_names[0], 0.7)
        f.fix_parameter(f.parameter_names[-1], 0.7)
        f.release_parameter(f.parameter_names[0])
    return f


def gen_rep(tier, seed):
    for kind in ("xy", "xy-large", "indexed", "hist", "unbinned", "custom"):
        for scale in ((1.0, 1e-4, 3e5) if kind in ("xy", "indexed") else (7e2, 3e5, 2e-3) if kind == "xy-large" else (1.0,)):
            for setup in ("free", "fixed", "fixed-then-released"):
                for asym in (False, True):
                    yield {"kind": kind, "scale": scale, "setup": setup, "asymmetric": asym}


def close_to_shown(txt, held, tag):
    shown, unit = unit_of(txt)
    if abs(shown - Fraction(float(held))) > unit / 2:
        return {"got": txt, "expected": repr(float(held)), "witness_class": tag}


@R.oracle("report_and_summary_show_the_held_numbers", gen_rep, obligation="FitBase.report / get_compact_representation / get_result_dict")
def report(inp):
    f = make(inp["kind"], inp["scale"], inp["setup"])
    f.do_fit(asymmetric_parameter_errors=inp["asymmetric"])
    names, vals, errs = list(f.parameter_names), np.asarray(f.parameter_values), np.asarray(f.parameter_errors)
    asym = np.asarray(f.asymmetric_parameter_errors) if inp["asymmetric"] else None
    s = io.StringIO()
    f.report(s, asymmetric_parameter_errors=inp["asymmetric"])
    text = s.getvalue()
    sec = text[text.index("Model Parameters"):]
    lines = [l.strip() for l in sec.splitlines()[3:3 + len(names)]]
    fixed = set(f._fitter.fixed_parameters)
    for k, (nm, line) in enumerate(zip(names, lines)):
        if not line.startswith(nm + " = "):
            return {"got": line, "expected": nm, "witness_class": "report:parameter-name-or-order"}
        body = line[len(nm) + 3:]
        if nm not in fixed and "fixed" in body:
            return {"got": line, "expected": "a free parameter with its uncertainty", "witness_class": "report:free-parameter-marked-fixed"}
        if nm in fixed:
            if "fixed" not in body:
                return {"got": line, "expected": "marked as fixed", "witness_class": "report:fixed-not-marked"}
            r = close_to_shown(re.match(NUM, body).group(0), vals[k], "report:fixed-value")
        elif inp["asymmetric"]:
            m = re.fullmatch(r"(" + NUM + r")\s*\+\s*(" + NUM + r")\s*\(up\)\s*-\s*(" + NUM + r")\s*\(down\)", body)
            if not m:
                return {"got": line, "expected": "value + up - down", "witness_class": "report:unparsable"}
            up, dn = abs(asym[k][1]), abs(asym[k][0])
            sm_txt, sm = (m.group(3), dn) if dn <= up else (m.group(2), up)
            r = check_pair(m.group(1), sm_txt, vals[k], sm, 2, "report:asymmetric") or close_to_shown(m.group(2), up, "report:up") or close_to_shown(m.group(3), dn, "report:down")
        else:
            m = re.fullmatch(r"(" + NUM + r")\s*\+/-\s*(" + NUM + r")", body)
            if not m:
                return {"got": line, "expected": "value +/- uncertainty", "witness_class": "report:unparsable"}
            r = check_pair(m.group(1), m.group(2), vals[k], errs[k], 2, "report:symmetric")
        if r:
            return r
    # cost / ndf
    m = re.search(r"(?:chi2|GoF) / ndf = (" + NUM + r") / (\d+) = (" + NUM + r")", text)
    if m:
        r = close_to_shown(m.group(1), f.goodness_of_fit, "report:gof") or (None if int(m.group(2)) == f.ndf else {"got": m.group(2), "expected": f.ndf, "witness_class": "report:ndf"}) or \
            close_to_shown(m.group(3), f.goodness_of_fit / f.ndf, "report:gof/ndf")
        if r:
            return r
    else:
        m = re.search(r"Cost = (" + NUM + ")", text)
        if m:
            r = close_to_shown(m.group(1), f.cost_function_value, "report:cost")
            if r:
                return r
    mp = re.search(r"chi2 probability = (" + NUM + ")", text)
    if mp and f.chi2_probability is not None:
        r = close_to_shown(mp.group(1), f.chi2_probability, "report:chi2-probability")
        if r:
            return r
    # correlations
    if "Model Parameter Correlations" in text and f.parameter_cor_mat is not None:
        csec = text[text.index("Model Parameter Correlations"):].splitlines()
        rows = [l.split() for l in csec[5:5 + len(names)]]
        cor = np.asarray(f.parameter_cor_mat)
        for a_, row in enumerate(rows):
            if not row or row[0] != names[a_]:
                return {"got": row, "expected": names[a_], "witness_class": "report:correlation-row-name"}
            for b_, cell in enumerate(row[1:1 + len(names)]):
                if cell.lower() == "nan":
                    continue
                r = close_to_shown(cell, cor[a_][b_], "report:correlation")
                if r:
                    return r
    # compact summary in the saved file
    d = tempfile.mkdtemp(prefix="c17_")
    p = os.path.join(d, "f.yml")
    f.to_file(p)
    head = [l[2:] for l in open(p).read().splitlines() if l.startswith("# ")]
    os.remove(p); os.rmdir(d)
    # header lines above the table: goodness of fit (or cost), degrees of freedom and their ratio are the ones the fit holds
    hl = {l.split(":")[0].strip(): l.split(":", 1)[1].strip() for l in head if ":" in l and l.split(":")[0].strip() in ("chi2", "GoF", "ndf", "chi2/ndf", "GoF/ndf", "Cost")}
    gof_ = f.goodness_of_fit
    if gof_ is not None:
        key = "chi2" if "chi2" in hl else "GoF"
        if key not in hl or key + "/ndf" not in hl or "ndf" not in hl:
            return {"got": hl, "expected": "goodness of fit, ndf and their ratio", "witness_class": "summary:header-lines-missing"}
        r = close_to_shown(hl[key], gof_, "summary:header-gof") or (None if int(hl["ndf"]) == f.ndf else {"got": hl["ndf"], "expected": f.ndf, "witness_class": "summary:header-ndf"}) or \
            close_to_shown(hl[key + "/ndf"], gof_ / f.ndf, "summary:header-gof/ndf")
        if r:
            return r
    elif "Cost" in hl:
        r = close_to_shown(hl["Cost"], f.cost_function_value, "summary:header-cost")
        if r:
            return r
    for k, nm in enumerate(names):
        row = [l for l in head if l.split() and l.split()[0] == nm]
        if not row:
            return {"got": head[:12], "expected": nm, "witness_class": "summary:parameter-missing"}
        cells = row[0].split()
        if nm in fixed:
            if "fixed" not in cells:
                return {"got": row[0], "expected": "fixed", "witness_class": "summary:fixed-not-marked"}
            r = close_to_shown(cells[1], vals[k], "summary:fixed-value")
        else:
            r = close_to_shown(cells[2], errs[k], "summary:uncertainty")
            if not r:
                v_shown, v_unit = unit_of(cells[1])
                e_unit = unit_of(cells[2])[1]
                if abs(v_shown - Fraction(float(vals[k]))) > max(v_unit, e_unit) / 2:
                    r = {"got": row[0], "expected": repr(float(vals[k])), "witness_class": "summary:value"}
            if not r and inp["asymmetric"]:
                hdr = [re.split(r"\s{2,}", l.strip()) for l in head if l.strip().startswith("Par name")]
                cols = re.split(r"\s{2,}", row[0].strip())
                if not hdr or "Par err down" not in hdr[0] or "Par err up" not in hdr[0]:
                    r = {"got": hdr, "expected": "columns 'Par err down' and 'Par err up'", "witness_class": "summary:asymmetric-columns-missing"}
                else:          # the numbers are read from the columns the HEADER names, not by position
                    r = close_to_shown(cols[hdr[0].index("Par err down")], asym[k][0], "summary:down") or close_to_shown(cols[hdr[0].index("Par err up")], asym[k][1], "summary:up")
        if r:
            return r
    # result dictionary: the held numbers themselves
    rd = f.get_result_dict()
    pv = rd["parameter_values"]
    pv = list(pv.values()) if isinstance(pv, dict) else list(pv)
    if not np.array_equal(np.asarray(pv, float), np.asarray(f.parameter_values, float)) or rd["did_fit"] is not True or rd["ndf"] != f.ndf or abs(rd["cost"] - f.cost_function_value) > 0:
        return {"got": {k_: rd[k_] for k_ in ("parameter_values", "cost", "ndf", "did_fit")}, "expected": "the held values", "witness_class": "result_dict"}
    pe = rd["parameter_errors"]
    pe = list(pe.values()) if isinstance(pe, dict) else list(pe)
    if not np.allclose(np.asarray(pe, float), errs, rtol=0, atol=0):
        return {"got": pe, "expected": errs.tolist(), "witness_class": "result_dict:errors"}


def gen_multi(tier, seed):
    for asym in (True, False):
        for first in ("report", "read"):
            yield {"asymmetric": asym, "first": first}


@R.oracle("multi_fit_report_shows_the_held_numbers", gen_multi, obligation="MultiFit.report / _update_parameter_formatters")
def multi_report(inp):
    """MultiFit.report directly after do_fit (first = report) or after the numbers were read once (first = read): the parameter lines show what the multi-fit holds"""
    MultiFit, XYFit_ = imp("kafe2").MultiFit, imp("kafe2").XYFit
    x = np.array([0.5, 1.0, 1.5, 2.0, 2.5, 3.0])

    def decay(x, a, tau):
        return a * np.exp(-x / tau)

    def decay_off(x, tau, c):
        return 2.0 * np.exp(-x / tau) + c
    f1 = XYFit_([x, np.array([2.55, 2.42, 1.61, 1.93, 1.22, 1.45])], decay); f1.add_error("y", 0.35); f1.set_parameter_values(a=3.0, tau=4.0)
    f2 = XYFit_([x, np.array([2.31, 1.55, 1.92, 1.37, 1.58, 1.02])], decay_off); f2.add_error("y", 0.35); f2.set_parameter_values(tau=4.0, c=0.2)
    mf = MultiFit([f1, f2])
    mf.do_fit()
    if inp["first"] == "read":
        _ = mf.asymmetric_parameter_errors if inp["asymmetric"] else mf.parameter_errors
    s_ = io.StringIO()
    mf.report(s_, asymmetric_parameter_errors=inp["asymmetric"])
    text = s_.getvalue()
    names, vals, errs = list(mf.parameter_names), np.asarray(mf.parameter_values), np.asarray(mf.parameter_errors)
    asym = np.asarray(mf.asymmetric_parameter_errors) if inp["asymmetric"] else None
    for k, nm in enumerate(names):
        if inp["asymmetric"]:
            ms = re.findall(r"^\s*" + re.escape(nm) + r" = (" + NUM + r")\s*\+\s*(" + NUM + r")\s*\(up\)\s*-\s*(" + NUM + r")\s*\(down\)\s*$", text, re.M)
            if not ms:
                return {"got": text[-600:], "expected": nm + " = value + up - down", "witness_class": "multi-report:unparsable"}
            for m_ in ms:          # the multi-fit's own section and the sections of the members that use the parameter
                up, dn = abs(asym[k][1]), abs(asym[k][0])
                r = close_to_shown(m_[1], up, "multi-report:up") or close_to_shown(m_[2], dn, "multi-report:down") or check_pair(m_[0], m_[2] if dn <= up else m_[1], vals[k], min(up, dn), 2, "multi-report:asymmetric")
                if r:
                    return r
        else:
            ms = re.findall(r"^\s*" + re.escape(nm) + r" = (" + NUM + r")\s*\+/-\s*(" + NUM + r")\s*$", text, re.M)
            if not ms:
                return {"got": text[-600:], "expected": nm + " = value +/- uncertainty", "witness_class": "multi-report:unparsable"}
            for m_ in ms:
                r = check_pair(m_[0], m_[1], vals[k], errs[k], 2, "multi-report:symmetric")
                if r:
                    return r


def gen_zero(tier, seed):
    for backend in ("scipy", "iminuit"):
        yield {"backend": backend}


@R.oracle("summary_of_a_parameter_at_zero", gen_zero, obligation="get_compact_representation")
def zero_value(inp):
    """a fitted value of exactly 0 (a parameter at a limit of 0) with a non-zero uncertainty: the fit can be saved and the summary shows 0 and the uncertainty"""
    get_compact = imp("kafe2.tools").get_compact_representation
    txt = get_compact(["a", "b"], np.array([0.0, 1.234]), np.array([0.12, 0.034]), np.eye(2))
    rows = {l[2:].split()[0]: l[2:].split() for l in txt.splitlines() if l.startswith("# ") and l[2:].split() and l[2:].split()[0] in ("a", "b")}
    if "a" not in rows or float(rows["a"][1]) != 0.0:
        return {"got": txt, "expected": "a row for a with value 0", "witness_class": "summary:zero-value"}
    return close_to_shown(rows["a"][2], 0.12, "summary:zero-value:uncertainty") or close_to_shown(rows["b"][2], 0.034, "summary:uncertainty")


sys.exit(R.main())
