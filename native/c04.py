"""Native side of C04: operation histories on real node graphs against an independent from-scratch evaluator
(the property's own oracle), evaluation counters wrapped around user functions, cycle rejection and exceptional frames."""
import itertools, sys
from common import parse, Runner, imp

args = parse()
import numpy as np
nx = imp("kafe2.core.fitters.nexus")
R = Runner("C04", args, scope="diamond graph c,d -> n,m -> p -> a (alias), t=(n,d) tuple, u=t-consumer, fb=fallback(g|d); all histories of <= 3 operations (4 thorough) from a 24-operation alphabet; registry graph with cycles",
           rule="exhaustive enumeration of operation sequences; each history ends with reads of every node compared with the from-scratch evaluator")


class Boom(Exception):
    pass


class World:
    """real graph + oracle (definitions as closures over an environment of parameter values, frozen snapshots, edges)"""

    def __init__(self):
        self.calls = {}
        self.par = {"c": 1.0, "d": 10.0, "e": 3.0}
        self.frozen = {}
        self.seen = {}
        self.defs = {}
        self.g = {}
        g = self.g
        for k, v in self.par.items():
            g[k] = nx.Parameter(v, name=k)
        self.mkf("n", lambda c: c * 2, ["c"])
        self.mkf("m", lambda c, d: c + d, ["c", "d"])
        self.mkf("p", lambda n, m: n * 100 + m, ["n", "m"])
        g["a"] = nx.Alias(g["p"], name="a")
        self.defs["a"] = ("alias", ["p"])
        g["aa"] = nx.Alias(g["a"], name="aa")          # an alias of an alias follows the alias it was defined on, wherever that one points later
        self.defs["aa"] = ("alias", ["a"])
        g["t"] = nx.Tuple([g["n"], g["d"]], name="t")
        self.defs["t"] = ("tuple", ["n", "d"])
        self.mkf("u", lambda t: sum(t), ["t"])
        self.par["lv"] = [1.0, 2.0]
        g["lv"] = nx.Parameter([1.0, 2.0], name="lv")          # a parameter holding a mutable value (list / array)
        self.mkf("sl", lambda lv: float(sum(lv)), ["lv"])
        self.mkf("sq", lambda x, y: x * 3 - y, ["d", "d"])          # the same node in two argument slots: a replacement must re-point both
        self.mkf("gq", self.raising, ["c"])
        g["fb"] = nx.Fallback([g["gq"], g["d"]], exception_type=Boom, name="fb")
        self.defs["fb"] = ("fallback", ["gq", "d"])
        g["arr"] = nx.Array([g["n"], g["e"]], name="arr")
        self.defs["arr"] = ("tuple", ["n", "e"])

    @staticmethod
    def raising(c):
        if c < 0:
            raise Boom("negative")
        return c + 0.5

    def mkf(self, name, fn, deps):
        def counted(*a, _fn=fn, _name=name):
            self.calls[_name] = self.calls.get(_name, 0) + 1
            return _fn(*a)
        self.g[name] = nx.Function(counted, name=name, parameters=[self.g[d] for d in deps])
        self.defs[name] = (fn, list(deps))

    # ---- oracle
    def val(self, k):
        if k in self.par:
            return self.par[k]
        if k in self.frozen:
            return self.frozen[k]
        kind, deps = self.defs[k]
        if kind == "alias":
            return self.val(deps[0])
        if kind == "tuple":
            return tuple(self.val(x) for x in deps)
        if kind == "fallback":
            for x in deps:
                try:
                    return self.val(x)
                except Boom:
                    pass
            raise RuntimeError("no alternative")
        return kind(*[self.val(x) for x in deps])

    def visit(self, k):
        """what a read of k evaluates: k and, recursively, the inputs it needs (not below a frozen node; a fallback stops at its first working
        alternative).  `seen[x]` = value of x at its last evaluation = what x holds if it is frozen later without being read again."""
        if k in self.par or k in self.frozen:
            return
        kind, deps = self.defs[k]
        if kind == "fallback":
            for x in deps:
                self.visit(x)
                try:
                    self.val(x)
                    break
                except Boom:
                    continue
        else:
            for x in deps:
                self.visit(x)
        try:
            self.seen[k] = self.val(k)
        except (Boom, RuntimeError):
            self.seen.pop(k, None)

    def read(self, k):
        self.visit(k)
        try:
            v = self.g[k].value
            return tuple(float(x) for x in v) if isinstance(v, (tuple, np.ndarray)) else float(v)
        except (Boom, RuntimeError) as e:
            return "raises:" + type(e).__name__

    def oracle(self, k):
        try:
            v = self.val(k)
            return tuple(float(x) for x in v) if isinstance(v, tuple) else float(v)
        except (Boom, RuntimeError) as e:
            return "raises:" + type(e).__name__


READ = ["n", "m", "p", "a", "aa", "t", "u", "fb", "arr", "gq", "sq", "sl"]
OPS = [("set", "c", 2.0), ("set", "c", -1.0), ("set", "c", 4.0), ("set", "d", 20.0), ("set", "e", 7.0), ("read", "p"), ("read", "n"), ("read", "a"), ("read", "u"), ("read", "fb"), ("read", "arr"),
       ("freeze", "n"), ("unfreeze", "n"), ("freeze", "p"), ("unfreeze", "p"), ("freeze", "t"), ("unfreeze", "t"), ("setfunc", "n"), ("setitem", "t"), ("setitem_arr", "arr"), ("replace", "d"), ("replace_child", "p"),
       ("add_child", "m"), ("freeze_stale", "m"), ("unfreeze", "m"), ("freeze_stale", "n"), ("set_inplace", "lv"), ("repoint_alias", "a")]


def apply(w, op):
    kind, k = op[0], op[1]
    g = w.g
    if kind == "set":
        g[k].value = op[2]; w.par[k] = op[2]
    elif kind == "repoint_alias":          # the inner alias is pointed at another node: everything defined on it follows
        tgt = "n" if w.defs["a"][1] == ["p"] else "p"
        g["a"].ref = g[tgt]; w.defs["a"] = ("alias", [tgt])
    elif kind == "set_inplace":          # the value object is updated in place and assigned again (the usual way to update an array-valued parameter): an assignment like any other
        buf = g[k].value
        buf[0] += 1.0
        g[k].value = buf
        w.par[k] = list(buf)
    elif kind == "read":
        w.read(k)
    elif kind == "freeze":
        w.read(k)                         # documented usage: update, then freeze (snapshot = current value)
        try:
            w.frozen[k] = w.val(k)
        except Exception:
            return
        g[k].freeze()
    elif kind == "freeze_stale":          # freeze without reading first: the snapshot is whatever the cache holds
        if k not in w.seen:
            return                        # never evaluated: there is no 'value it had'
        w.frozen[k] = w.seen[k]; g[k].freeze()          # a frozen node returns the value it had when it was frozen: the one of its last evaluation
    elif kind == "unfreeze":
        w.frozen.pop(k, None); g[k].unfreeze()
    elif kind == "setfunc":
        def f2(c):
            w.calls["n"] = w.calls.get("n", 0) + 1
            return c * 7
        g["n"].func = f2; w.defs["n"] = (lambda c: c * 7, ["c"])
    elif kind == "setitem":
        g["t"][1] = g["e"]; w.defs["t"] = ("tuple", [w.defs["t"][1][0], "e"])
    elif kind == "setitem_arr":
        g["arr"][1] = g["d"]; w.defs["arr"] = ("tuple", [w.defs["arr"][1][0], "d"])
    elif kind == "replace":              # replace parameter d by e everywhere
        if w.par.get("__replaced"):
            return
        g["d"].replace(g["e"])
        for name, (fn, deps) in list(w.defs.items()):
            w.defs[name] = (fn, ["e" if x == "d" else x for x in deps])
        w.par["__replaced"] = 1.0
    elif kind == "replace_child":
        fn, deps = w.defs["p"]
        if "m" in deps:
            g["p"].replace_child(g["m"], g["e"]); w.defs["p"] = (fn, ["e" if x == "m" else x for x in deps])
    elif kind == "add_child":            # dependency-only edge: m additionally depends on e (value unaffected)
        g["m"].add_child(g["e"])


def gen_hist(tier, seed):
    L = 4 if tier == "thorough" else 3
    for ln in range(1, L + 1):
        for seq in itertools.product(range(len(OPS)), repeat=ln):
            if ln == L and L == 4 and (seq[0] % 3 == 1):      # thin out the longest layer deterministically
                continue
            yield {"history": [list(OPS[q]) for q in seq]}
    # deeper histories behind fixed prefixes (a node frozen while stale, a frozen node with a replaced function, ...): prefix + every sequence of <= 2 operations
    PREFIXES = [[("read", "p"), ("set", "c", 2.0), ("freeze_stale", "n")], [("read", "u"), ("set", "d", 20.0), ("freeze_stale", "m"), ("read", "p")], [("read", "p"), ("freeze", "n"), ("setfunc", "n")],
                [("read", "arr"), ("set", "c", 4.0), ("freeze_stale", "n"), ("read", "arr")], [("read", "sl")]]
    for pre in PREFIXES:
        for ln in range(0, 3):
            for seq in itertools.product(range(len(OPS)), repeat=ln):
                yield {"history": [list(o) for o in pre] + [list(OPS[q]) for q in seq]}


@R.oracle("history_vs_from_scratch", gen_hist, obligation="")
def hist(inp):
    w = World()
    for op in inp["history"]:
        apply(w, tuple(op))
    w.calls.clear()
    bad = []
    for k in READ:
        got, exp = w.read(k), w.oracle(k)
        if got != exp:
            bad.append((k, got, exp))
    if bad:
        last = [op[0] + ":" + str(op[1]) for op in inp["history"] if op[0] != "read"]
        return {"got": {k: g for k, g, e in bad}, "expected": {k: e for k, g, e in bad}, "witness_class": "wrong:" + ",".join(sorted(k for k, g, e in bad)) + ":after:" + (last[-1] if last else "reads-only")}
    if any(v > 1 for k, v in w.calls.items() if not (k == "gq" and w.par["c"] < 0)):
        return {"got": dict(w.calls), "expected": "each user function evaluated at most once per read sweep", "witness_class": "evaluated-twice"}
    # second sweep without any assignment: nothing may be re-evaluated (except definitions that raise: they stay stale)
    w.calls.clear()
    for k in READ:
        w.read(k)
    again = {k: v for k, v in w.calls.items() if not (k == "gq" and w.par["c"] < 0)}
    if again:
        return {"got": again, "expected": "no re-evaluation without an assignment", "witness_class": "recomputed-unchanged"}


def gen_nexus(tier, seed):
    for case in ("dep_cycle", "dep_cycle_existing_dep", "dep_ok", "add_fail_existing", "add_replace", "add_function_defaults", "alias_of_alias", "get_value_dict", "unknown_dep"):
        yield {"case": case}


def snapshot(nex):
    return {name: (sorted(c.name for c in node.get_children()), sorted(p.name for p in node.get_parents())) for name, node in nex._nodes.items()}


@R.oracle("nexus_registry", gen_nexus, obligation="Nexus.")
def nexus(inp):
    case = inp["case"]
    g = nx.Nexus()
    a = g.add(nx.Parameter(1.0, name="a"))
    b = g.add(nx.Parameter(2.0, name="b"))
    f = g.add_function(lambda a, b: a + b, func_name="f")
    h = g.add_function(lambda f: f * 2, func_name="h")
    if case in ("dep_cycle", "dep_cycle_existing_dep"):
        if case == "dep_cycle_existing_dep":
            g.add_dependency("f", "b")
        _ = h.value
        before = snapshot(g)
        try:
            g.add_dependency("f", ("a", "h") if case == "dep_cycle" else ("b", "h"))
            return {"got": "cycle-closing dependency accepted", "expected": "ValueError", "witness_class": "cycle-accepted"}
        except ValueError:
            pass
        if snapshot(g) != before:
            return {"got": snapshot(g), "expected": before, "witness_class": "rejected-dependency-left-edges"}
        a.value = 5.0
        if h.value != 14.0:
            return {"got": h.value, "expected": 14.0, "witness_class": "value-after-rejected-dependency"}
    elif case == "dep_ok":
        k = g.add(nx.Parameter(0.0, name="k"))
        _ = h.value
        g.add_dependency("f", "k")
        if not f.stale:
            return {"got": "f fresh after gaining a dependency", "expected": "stale", "witness_class": "dep-not-marked"}
        _ = h.value
        k.value = 1.0
        if not (f.stale and h.stale):
            return {"got": (f.stale, h.stale), "expected": (True, True), "witness_class": "dependency-does-not-notify"}
    elif case == "unknown_dep":
        before = snapshot(g)
        for bad in (("nope", "a"), ("f", "nope"), ("f", ("a", "nope"))):
            try:
                g.add_dependency(*bad)
                return {"got": "accepted " + repr(bad), "expected": "ValueError", "witness_class": "unknown-name-accepted"}
            except ValueError:
                pass
        if snapshot(g) != before:
            return {"got": snapshot(g), "expected": before, "witness_class": "rejected-unknown-left-edges"}
    elif case == "add_fail_existing":
        before = snapshot(g)
        try:
            g.add(nx.Parameter(9.0, name="a"))
            return {"got": "duplicate name accepted", "expected": "ValueError", "witness_class": "duplicate-accepted"}
        except ValueError:
            pass
        if snapshot(g) != before or g.get("a") is not a:
            return {"got": snapshot(g), "expected": before, "witness_class": "rejected-add-changed-registry"}
    elif case == "add_replace":
        _ = h.value
        g.add(nx.Parameter(10.0, name="a"), existing_behavior="replace")
        if h.value != 24.0:
            return {"got": h.value, "expected": 24.0, "witness_class": "replace-not-seen"}
        if g.get("a").value != 10.0:
            return {"got": g.get("a").value, "expected": 10.0, "witness_class": "registry-not-remapped"}
    elif case == "add_function_defaults":
        q = g.add_function(lambda a, z=3.0: a * z, func_name="q")
        if q.value != 3.0 or g.get("z").value != 3.0:
            return {"got": q.value, "expected": 3.0, "witness_class": "default-parameter"}
        g.get("z").value = 4.0
        if q.value != 4.0:
            return {"got": q.value, "expected": 4.0, "witness_class": "default-parameter-update"}
    elif case == "alias_of_alias":
        g.add_alias("h1", alias_for="h")
        g.add_alias("h2", alias_for="h1")
        _ = g.get("h2").value
        a.value = 3.0
        if g.get("h2").value != 10.0:
            return {"got": g.get("h2").value, "expected": 10.0, "witness_class": "alias-chain"}
    elif case == "get_value_dict":
        d = g.get_value_dict()
        exp = {"a": 1.0, "b": 2.0, "f": 3.0, "h": 6.0}
        if {k: d[k] for k in exp} != exp or "__root__" in d:
            return {"got": d, "expected": exp, "witness_class": "value-dict"}


def gen_cycle(tier, seed):
    # all digraphs on 3 extra nodes given as dependency lists; the cycle checker must reject exactly the cyclic ones
    names = ["x", "y", "z"]
    pairs = [(p, q) for p in names for q in names if p != q]
    for mask in range(2 ** len(pairs)):
        yield {"edges": [pairs[i] for i in range(len(pairs)) if mask >> i & 1]}


def has_cycle(edges):
    adj = {}
    for p, q in edges:
        adj.setdefault(p, []).append(q)
    def reach(s, t, seen=()):
        return any(n == t or (n not in seen and reach(n, t, seen + (n,))) for n in adj.get(s, []))
    return any(reach(n, n) for n in adj)


@R.oracle("cycle_checker_exhaustive", gen_cycle, obligation="NodeCycleChecker")
def cycle(inp):
    g = nx.Nexus()
    for nme in ("x", "y", "z"):
        g.add(nx.Function(lambda: 0, name=nme))
    accepted = []
    for p, q in inp["edges"]:
        try:
            g.add_dependency(p, q)
            accepted.append((p, q))
            if has_cycle(accepted):
                return {"got": "accepted " + repr((p, q)), "expected": "ValueError (closes a cycle)", "witness_class": "cycle-accepted"}
        except ValueError:
            if not has_cycle(accepted + [(p, q)]):
                return {"got": "rejected " + repr((p, q)), "expected": "accepted (acyclic)", "witness_class": "acyclic-rejected"}
            got = sorted((pn, c.name) for pn in ("x", "y", "z") for c in g.get(pn).get_children())
            if got != sorted(accepted):
                return {"got": got, "expected": sorted(accepted), "witness_class": "rejected-edge-stays"}


sys.exit(R.main())
