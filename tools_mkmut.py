#!/usr/bin/env python3
"""tools_mkmut.py <Cxx> <name> <repo-relative file> <old> <new>: write mutants/<Cxx>/<name>.diff replacing the (unique) text `old` by `new`
(the diff is produced by git in a scratch worktree outside /repo and /verif, which is removed at once)"""
import sys, os, subprocess, tempfile
prop, name, rel, old, new = sys.argv[1:6]
old, new = old.encode().decode("unicode_escape"), new.encode().decode("unicode_escape")
d = tempfile.mkdtemp(prefix="mkmut_", dir="/tmp"); os.rmdir(d)
subprocess.run(["git", "-C", "/repo", "worktree", "add", "-q", "--detach", d, "HEAD"], check=True)
try:
    p = os.path.join(d, rel)
    src = open(p, encoding="utf-8", newline="").read()
    if "\r\n" in src:       # keep CRLF files CRLF
        old, new = old.replace("\n", "\r\n"), new.replace("\n", "\r\n")
    assert src.count(old) == 1, f"old text occurs {src.count(old)} times"
    open(p, "w", encoding="utf-8", newline="").write(src.replace(old, new))
    out = subprocess.run(["git", "-C", d, "diff"], capture_output=True, text=True, check=True).stdout
    os.makedirs(f"/verif/mutants/{prop}", exist_ok=True)
    open(f"/verif/mutants/{prop}/{name}.diff", "w").write(out)
    print("wrote", f"mutants/{prop}/{name}.diff")
finally:
    subprocess.run(["git", "-C", "/repo", "worktree", "remove", "--force", d])
