#!/usr/bin/env python3
"""tools_mkmut.py <Cxx> <name> <repo-relative file> <old> <new>: write mutants/<Cxx>/<name>.diff replacing the (unique) text `old` by `new`"""
import sys, difflib, os
prop, name, rel, old, new = sys.argv[1:6]
src = open(os.path.join("/repo", rel)).read()
old, new = old.encode().decode("unicode_escape"), new.encode().decode("unicode_escape")
assert src.count(old) == 1, f"old text occurs {src.count(old)} times"
mut = src.replace(old, new)
d = "".join(difflib.unified_diff(src.splitlines(True), mut.splitlines(True), "a/" + rel, "b/" + rel))
os.makedirs(f"/verif/mutants/{prop}", exist_ok=True)
open(f"/verif/mutants/{prop}/{name}.diff", "w").write(d)
print("wrote", f"mutants/{prop}/{name}.diff")
